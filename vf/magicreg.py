"""CPython's own magic-number registry, parsed from importlib/_bootstrap_external.py of the
installed interpreters (never from xdis)."""
import os
import re

from vf.pool import interpreters

_ROW = re.compile(r"^#\s+Python (\d)\.(\d+)((?:a|b|c|rc|\.)[0-9a-z.]*)?:?\s+(\d+)\b")

_CACHE = {}


def registry_rows():
    """[(major, minor, suffix, magic_int, source_version)] from every installed 3.x."""
    if "rows" in _CACHE:
        return _CACHE["rows"]
    rows = {}
    for v, exe in sorted(interpreters().items()):
        if v.startswith("2."):
            continue
        root = os.path.dirname(os.path.dirname(exe))
        p = os.path.join(root, "lib", "python" + v, "importlib", "_bootstrap_external.py")
        if not os.path.exists(p):
            continue
        for line in open(p, encoding="utf-8"):
            if not line.startswith("#"):
                if "MAGIC_NUMBER" in line:
                    break
                continue
            m = _ROW.match(line)
            if m:
                major, minor, suf, magic = int(m.group(1)), int(m.group(2)), m.group(3) or "", int(m.group(4))
                rows.setdefault((major, minor, suf, magic), v)
    out = sorted((k[0], k[1], k[2], k[3], src) for k, src in rows.items())
    _CACHE["rows"] = out
    return out


def final_magics():
    """{(major, minor): magic_int of the last registry row (in file order, newest registry
    that lists the series) of that release series}"""
    best = {}
    for v, exe in sorted(interpreters().items(), key=lambda kv: tuple(int(x) for x in kv[0].split("."))):
        if v.startswith("2."):
            continue
        root = os.path.dirname(os.path.dirname(exe))
        p = os.path.join(root, "lib", "python" + v, "importlib", "_bootstrap_external.py")
        if not os.path.exists(p):
            continue
        cur = {}
        for line in open(p, encoding="utf-8"):
            if not line.startswith("#"):
                if "MAGIC_NUMBER" in line:
                    break
                continue
            m = _ROW.match(line)
            if m:
                cur[(int(m.group(1)), int(m.group(2)))] = int(m.group(4))
        best.update(cur)
    return best


# magics of releases older than the registry (from the comments of Python/import.c of 2.7,
# identical in every CPython since): used only to *label* corpus files
OLD_MAGICS = {(1, 0): 39170, (1, 1): 39171, (1, 2): 39171, (1, 3): 11913, (1, 4): 5892}


def magic_bytes(magic_int):
    import struct
    return struct.pack("<H", magic_int) + b"\r\n"
