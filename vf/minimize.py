"""Structural minimiser over JSON-able cases (own ddmin; Hypothesis' shrinker has a hard
5-minute cap and cannot be bounded from outside).  `fails(case)` must be total: any
exception or rejection counts as 'does not fail'."""
import copy
import json
import time


def _paths(node, path=()):
    """All container paths, outermost first."""
    if isinstance(node, list):
        yield path, node
        for i, x in enumerate(node):
            for p in _paths(x, path + (i,)):
                yield p
    elif isinstance(node, dict):
        yield path, node
        for k in sorted(node):
            for p in _paths(node[k], path + (k,)):
                yield p


def _get(root, path):
    for p in path:
        root = root[p]
    return root


def _set(root, path, val):
    if not path:
        return val
    root = copy.deepcopy(root)
    cur = root
    for p in path[:-1]:
        cur = cur[p]
    cur[path[-1]] = val
    return root


def _candidates(case):
    for path, node in list(_paths(case)):
        if isinstance(node, list):
            n = len(node)
            # hoist a child that looks like a node of the same family
            for x in node:
                if isinstance(x, list) and x and isinstance(x[0], str) and path:
                    yield _set(case, path, x)
                if isinstance(x, list) and x and isinstance(x[0], list):
                    for y in x:
                        if isinstance(y, list) and y and isinstance(y[0], str) and path:
                            yield _set(case, path, y)
            # drop chunks, then single elements
            size = n // 2
            while size >= 1:
                for i in range(0, n, size):
                    yield _set(case, path, node[:i] + node[i + size:])
                if size == 1:
                    break
                size //= 2
        elif isinstance(node, dict):
            pass
    # scalars
    def scal(node, path):
        if isinstance(node, bool):
            return
        if isinstance(node, int):
            if node != 0:
                yield _set(case, path, 0)
                yield _set(case, path, node // 2)
        elif isinstance(node, str):
            if "\n" in node:
                # source text: delta-debug by lines (chunks first)
                lines = node.split("\n")
                n = len(lines)
                size = n // 2
                while size >= 1:
                    for i in range(0, n, size):
                        yield _set(case, path, "\n".join(lines[:i] + lines[i + size:]))
                    if size == 1:
                        break
                    size //= 2
            elif len(node) > 2:
                yield _set(case, path, node[: len(node) // 2])
                yield _set(case, path, node[:2])
        elif isinstance(node, list):
            for i, x in enumerate(node):
                for c in scal(x, path + (i,)):
                    yield c
        elif isinstance(node, dict):
            for k in sorted(node):
                for c in scal(node[k], path + (k,)):
                    yield c
    for c in scal(case, ()):
        yield c


def size(case):
    return len(json.dumps(case, sort_keys=True))


def minimize(case, fails, deadline, max_evals=3000):
    best = case
    best_size = size(case)
    evals = 0
    progress = True
    while progress and time.time() < deadline and evals < max_evals:
        progress = False
        for cand in _candidates(best):
            if time.time() > deadline or evals >= max_evals:
                break
            s = size(cand)
            if s >= best_size:
                continue
            evals += 1
            try:
                ok = fails(cand)
            except Exception:
                ok = False
            if ok:
                best, best_size = cand, s
                progress = True
                break
    return best, evals
