"""C02 - instruction stream decodes exactly as CPython's dis."""
from vf import progdiff as pd
from vf import refworker as rw
from vf.props.progbase import ProgProp


class C02(ProgProp):
    id = "C02"
    use_asm = True
    corpus_aspects = ("tiling", "decode")
    aspects = ("tiling", "decode")
    rule = ("case = (bytecode version, program) from G-PROG / stdlib sample (2.7, 3.6-3.13), every code object "
            "of it; oracle = intrinsic tiling (first offset 0, next = previous + width, end = len(co_code), "
            "inst_size / has_extended_arg consistent) AND per offset opcode, opname, folded operand == the "
            "producing CPython's dis (2.7: transcription of dis.disassemble with ceval EXTENDED_ARG semantics); "
            "non-trivial = code object with EXTENDED_ARG, CACHE units or > 255 bytes; distinct = (version, co_code)")
    assumptions = ["CPython's dis is ground truth for its own version",
                   "3.13 dis hides CACHE units: their count is taken from Instruction.cache_info",
                   "code objects above the size cap are not iterated (xdis's iterator is quadratic); the cap is "
                   "2400 bytes in quick and 6000 in thorough"]

    def fixed_cases(self, ctx):
        for c in super().fixed_cases(ctx):
            yield c
        for c in self.patch_api_cases(ctx):
            yield c
        # the directory a file lies in says nothing about its bytecode: same stream under any path
        for v in ("3.8", "3.9", "3.10", "2.7"):
            yield {"k": "pathname", "v": v, "src": "def f(a):\n    return a.b(1, *a, **{'k': a})\nx = [*f(1), *f(2)]\n" if v != "2.7" else "def f(a):\n    return a.b(1)\n"}
        # opcodes that CPython's documentation dates (HISTORY in c09): in a version that had the opcode, its byte decodes
        # to that name.  The byte value is the one the neighbouring versions' tables give the name (numbers did not move
        # while a name lived in that era; pairs where the neighbours disagree are left out).
        from vf.props import c09
        x = rw.xd()
        tabs = c09.tables(x)
        chain = [(vt, n) for vt, n in c09.cpython_chain(tabs) if (2, 0) <= vt < (3, 6)]
        for i, (vt, n) in enumerate(chain):
            if vt == (2, 7):
                continue            # (2.7 has an interpreter: the differential covers it)
            for name, ranges in sorted(c09.HISTORY.items()):
                if not any(lo <= vt <= hi for lo, hi in ranges):
                    continue
                if name in ("LIST_APPEND", "SET_ADD") and (2, 6) <= vt <= (3, 1):
                    continue        # these two moved (and gained an operand) in 2.7 / 3.1
                nums = set()
                for j in (i - 1, i + 1):
                    if 0 <= j < len(chain) and chain[j][0][0] == vt[0] and name in tabs[chain[j][1]].opmap:
                        nums.add(tabs[chain[j][1]].opmap[name])
                if len(nums) == 1:
                    yield {"k": "history", "v": "%d.%d" % vt, "name": name, "num": nums.pop()}

    def strata(self, ctx):
        from hypothesis import strategies as st
        from vf.gen import prog as gp
        from vf.pool import HOSTS
        out = super().strata(ctx)
        for h in HOSTS:
            out.append(["host:" + h, st.integers(2, 4).flatmap(lambda n, h=h: gp.programs(h, size=n, bulk=False)).map(
                lambda src, h=h: {"k": "host", "host": h, "src": src}), 2])
        return out

    def judge_host(self, case, ctx):
        from vf.pool import HOSTS
        from vf.run import Result
        res = Result()
        h = case.get("host")
        if h not in HOSTS or not isinstance(case.get("src"), str):
            res.reject = "malformed-case"
            return res
        r = ctx.pool.host(h).call("x_stream_host", src=case["src"])
        if "reject" in r:
            res.reject = "compiler-rejects:" + r["reject"].split(":")[0]
            return res
        for sig, msg in r["fails"]:
            res.fail("C02|host|%s|%s" % (h, sig), "host %s: %s" % (h, msg))
        res.evals = max(1, r["codes"])
        res.classes = ["source:host-native", "host:" + h]
        res.nontrivial = True
        res.key = [h, case["src"]]
        res.sample = {"host": h, "kind": "native code objects on the host, with and without current_offset", "source_head": case["src"][:200]}
        return res

    def judge_history(self, case, ctx):
        from vf.props.progbase import OLD_ASM
        from vf.run import Result
        res = Result()
        v, name, num = case.get("v"), case.get("name"), case.get("num")
        if v not in OLD_ASM or not isinstance(num, int) or not (0 <= num < 256) or not isinstance(name, str):
            res.reject = "malformed-case"
            return res
        tab = self.old_tables(ctx, v)
        code = bytes([num]) + (b"\x01\x00" if num >= tab.have_arg else b"")
        built = self.old_file(ctx, v, None, raw_code=code)
        x, err = pd.xdis_dump(built[4] + built[5], 100)
        res.classes = ["version:" + v, "source:history-opcode"]
        res.key = [v, name]
        res.nontrivial = True
        res.sample = {"version": v, "opcode": name, "byte": num, "oracle": "dis documentation dates + neighbouring tables' number"}
        if err or "instrs" not in x["dis"][0] or not x["dis"][0]["instrs"]:
            res.fail("C02|decode|%s|history-opcode|undecodable|%s" % (v, name), "%s: byte %d (%s, which Python %s had) cannot be decoded: %s" % (
                v, num, name, v, (err or ["", x["dis"][0].get("instrs_err")])[1]))
            return res
        got = x["dis"][0]["instrs"][0]["n"]
        if got.replace("+", "_") != name.replace("+", "_"):
            res.fail("C02|decode|%s|history-opcode|%s" % (v, name), "%s: byte %d is %s in the neighbouring versions and Python %s had that opcode "
                     "(dis documentation), xdis decodes it as %s" % (v, num, name, v, got))
        return res

    def judge_pathname(self, case, ctx):
        import os
        from vf.run import Result
        res = Result()
        v = case.get("v")
        if v not in self.versions or not isinstance(case.get("src"), str):
            res.reject = "malformed-case"
            return res
        ref = ctx.pool.ref(v).call("compile", src=case["src"], dis=False)
        if "reject" in ref:
            res.reject = "compiler-rejects"
            return res
        data = rw.unhx(ref["header"]) + rw.unhx(ref["payload"])
        tag = v.replace(".", "")
        streams = {}
        for rel in ("plain/m.cpython-%s.pyc" % tag, "pypy%s-compat/m.cpython-%s.pyc" % (tag, tag), "site-packages/pypy%s/m.pyc" % tag,
                    "x/m.pypy%s-compat.pyc" % tag):
            path = os.path.join(ctx.scratch, rel)
            os.makedirs(os.path.dirname(path), exist_ok=True)
            with open(path, "wb") as f:
                f.write(data)
            try:
                d = rw.x_dump_file(path=path, want_dis=True, max_code=2000, route="load_module")
                streams[rel] = [(d["header"]["is_pypy"],)] + [[(i["o"], i["n"], i["a"]) for i in c.get("instrs", [])] for c in d["dis"]]
            except Exception as e:
                streams[rel] = "raised %s: %s" % (type(e).__name__, e)
        base = streams["plain/m.cpython-%s.pyc" % tag]
        for rel, st_ in sorted(streams.items()):
            if st_ != base:
                res.fail("C02|decode|%s|depends-on-path" % v, "the same %s file decodes differently under %s than under plain/: %s vs %s" % (
                    v, rel, str(st_)[:120], str(base)[:120]))
                break
        res.nontrivial = True
        res.key = ["pathname", v]
        res.evals = len(streams)
        res.classes = ["version:" + v, "source:pathname"]
        res.sample = {"version": v, "paths": sorted(streams)}
        return res

    def judge(self, case, ctx):
        if case.get("k") == "pathname":
            return self.judge_pathname(case, ctx)
        if case.get("k") == "history":
            return self.judge_history(case, ctx)
        if case.get("k") == "host":
            return self.judge_host(case, ctx)
        res = super().judge(case, ctx)
        if case.get("k") == "asm" and isinstance(case.get("patch"), int) and not res.reject and not res.failures:
            self.judge_patch_api(case, ctx, res)
        return res

    def classify(self, case, ref, x, c, res):
        keys = []
        for i, info in enumerate(c.codeinfo):
            if info["ext"] or info["cache"] or info["len"] > 255:
                keys.append([case["v"], ref["payload"][:64], i, info["len"]])
        res.nt_keys = keys
        res.evals = max(1, len(c.codeinfo))


PROP = C02()
