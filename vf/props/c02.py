"""C02 - instruction stream decodes exactly as CPython's dis."""
from vf.props.progbase import ProgProp


class C02(ProgProp):
    id = "C02"
    use_asm = True
    corpus_aspects = ("tiling", "decode")
    aspects = ("tiling", "decode")
    rule = ("case = (bytecode version, program) from G-PROG / stdlib sample (2.7, 3.6-3.13), every code object "
            "of it; oracle = intrinsic tiling (first offset 0, next = previous + width, end = len(co_code), "
            "inst_size / has_extended_arg consistent) AND per offset opcode, opname, folded operand == the "
            "producing CPython's dis (2.7: transcription of dis.disassemble with ceval EXTENDED_ARG semantics); "
            "non-trivial = code object with EXTENDED_ARG, CACHE units or > 255 bytes; distinct = (version, co_code)")
    assumptions = ["CPython's dis is ground truth for its own version",
                   "3.13 dis hides CACHE units: their count is taken from Instruction.cache_info",
                   "code objects above the size cap are not iterated (xdis's iterator is quadratic); the cap is "
                   "2400 bytes in quick and 6000 in thorough"]

    def fixed_cases(self, ctx):
        for c in super().fixed_cases(ctx):
            yield c
        for c in self.patch_api_cases(ctx):
            yield c

    def strata(self, ctx):
        from hypothesis import strategies as st
        from vf.gen import prog as gp
        from vf.pool import HOSTS
        out = super().strata(ctx)
        for h in HOSTS:
            out.append(["host:" + h, st.integers(2, 4).flatmap(lambda n, h=h: gp.programs(h, size=n, bulk=False)).map(
                lambda src, h=h: {"k": "host", "host": h, "src": src}), 2])
        return out

    def judge_host(self, case, ctx):
        from vf.pool import HOSTS
        from vf.run import Result
        res = Result()
        h = case.get("host")
        if h not in HOSTS or not isinstance(case.get("src"), str):
            res.reject = "malformed-case"
            return res
        r = ctx.pool.host(h).call("x_stream_host", src=case["src"])
        if "reject" in r:
            res.reject = "compiler-rejects:" + r["reject"].split(":")[0]
            return res
        for sig, msg in r["fails"]:
            res.fail("C02|host|%s|%s" % (h, sig), "host %s: %s" % (h, msg))
        res.evals = max(1, r["codes"])
        res.classes = ["source:host-native", "host:" + h]
        res.nontrivial = True
        res.key = [h, case["src"]]
        res.sample = {"host": h, "kind": "native code objects on the host, with and without current_offset", "source_head": case["src"][:200]}
        return res

    def judge(self, case, ctx):
        if case.get("k") == "host":
            return self.judge_host(case, ctx)
        res = super().judge(case, ctx)
        if case.get("k") == "asm" and isinstance(case.get("patch"), int) and not res.reject and not res.failures:
            self.judge_patch_api(case, ctx, res)
        return res

    def classify(self, case, ref, x, c, res):
        keys = []
        for i, info in enumerate(c.codeinfo):
            if info["ext"] or info["cache"] or info["len"] > 255:
                keys.append([case["v"], ref["payload"][:64], i, info["len"]])
        res.nt_keys = keys
        res.evals = max(1, len(c.codeinfo))


PROP = C02()
