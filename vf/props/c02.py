"""C02 - instruction stream decodes exactly as CPython's dis."""
from vf.props.progbase import ProgProp


class C02(ProgProp):
    id = "C02"
    use_asm = True
    corpus_aspects = ("tiling", "decode")
    aspects = ("tiling", "decode")
    rule = ("case = (bytecode version, program) from G-PROG / stdlib sample (2.7, 3.6-3.13), every code object "
            "of it; oracle = intrinsic tiling (first offset 0, next = previous + width, end = len(co_code), "
            "inst_size / has_extended_arg consistent) AND per offset opcode, opname, folded operand == the "
            "producing CPython's dis (2.7: transcription of dis.disassemble with ceval EXTENDED_ARG semantics); "
            "non-trivial = code object with EXTENDED_ARG, CACHE units or > 255 bytes; distinct = (version, co_code)")
    assumptions = ["CPython's dis is ground truth for its own version",
                   "3.13 dis hides CACHE units: their count is taken from Instruction.cache_info",
                   "code objects above the size cap are not iterated (xdis's iterator is quadratic); the cap is "
                   "2400 bytes in quick and 6000 in thorough"]

    def classify(self, case, ref, x, c, res):
        keys = []
        for i, info in enumerate(c.codeinfo):
            if info["ext"] or info["cache"] or info["len"] > 255:
                keys.append([case["v"], ref["payload"][:64], i, info["len"]])
        res.nt_keys = keys
        res.evals = max(1, len(c.codeinfo))


PROP = C02()
