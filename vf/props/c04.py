"""C04 - jump targets, labels and is_jump_target."""
from vf.props.progbase import ProgProp


class C04(ProgProp):
    id = "C04"
    use_asm = True
    corpus_aspects = ("jump", "labels")
    use_tables = True
    aspects = ("jump", "labels")
    rule = ("case = (bytecode version, program) from G-PROG (loops, generators, async, try/with) / stdlib sample; "
            "oracle: (a) each jump's argval == CPython dis target, (b) set(findlabels) == set(dis.findlabels), "
            "(c) is_jump_target per instruction == dis.Bytecode's (incl. 3.11+ handler targets), (d) every target "
            "is an instruction start or len(co_code); non-trivial = code object with a backward jump, a jump "
            "behind EXTENDED_ARG, a pre-3.6 target >= 256 or inline caches; distinct = (version, co_code)")
    assumptions = ["CPython's dis is ground truth; 2.7 dis.findlabels ignores EXTENDED_ARG, so 2.7 labels come "
                   "from the ceval-faithful transcription in refworker.ref_dis_py2"]

    def classify(self, case, ref, x, c, res):
        keys = []
        for i, info in enumerate(c.codeinfo):
            if info["labels"] and (info["back"] or info["ext"] or info["cache"] or info["len"] > 255):
                keys.append([case["v"], ref["payload"][:64], i, info["len"]])
        res.nt_keys = keys
        res.evals = max(1, len(c.codeinfo))


PROP = C04()
