"""C20 - xdis.std is a faithful drop-in for the host's dis module."""
from hypothesis import strategies as st

from vf import progdiff as pd
from vf import refworker as rw
from vf.gen import prog as gp
from vf.pool import ALL_VERSIONS, HOSTS
from vf.run import Result


from vf.gen import asm as ga  # noqa: E402
from vf.props.progbase import ProgProp  # noqa: E402


class C20:
    pp = ProgProp()
    id = "C20"
    rule = ("case A = (host 3.8-3.13, terminating G-PROG program executed in a worker of that host to materialise "
            "functions, bound methods, classes, generator / coroutine / async-generator objects, the module code object "
            "and the source string; first_line in {None, 0, 1, 100, 100000, -5}); for every dis function that accepts "
            "the object (get_instructions, Bytecode, code_info, dis) the xdis.std namesake must accept it and yield the "
            "same opcode, opname, arg, offset, is_jump_target, starts_line (with the first_line shift) and argval for "
            "table-indexed / jump / compare operands; findlabels, findlinestarts and opmap/opname/hasconst/hasname/"
            "HAVE_ARGUMENT/EXTENDED_ARG equal the host's.  case B = (host H, target version v != H, program): "
            "make_std_api(v) on H applied to v's file == xdis.std on a host of version v (v in 3.8-3.13) or == v's own "
            "dis (v in 2.7/3.6/3.7, via C02-C05's reference dump); non-trivial = object other than a plain function, or "
            "first_line given, or code with a backward jump; distinct = (host, object kind, first_line, program)")
    assumptions = ["the host's dis is ground truth; CACHE pseudo-instructions (which xdis shows and dis hides) are "
                   "filtered; 3.13 starts_line is a bool: line_number is used; comparison operators by cmp_op index"]
    budgets = {"quick": {"shards": 14, "examples": 60, "seconds": 80},
               "thorough": {"shards": 16, "examples": 1500, "seconds": 1200}}

    def strategy(self, ctx):
        @st.composite
        def case(draw):
            if draw(st.integers(0, 3)) == 0:
                h = draw(st.sampled_from(HOSTS))
                v = draw(st.sampled_from([t for t in ALL_VERSIONS if t != h]))
                return {"t": "api", "host": h, "v": v, "src": draw(gp.programs(v, size=draw(st.integers(2, 4))))}
            h = draw(st.sampled_from(HOSTS))
            fl = draw(st.sampled_from([None, None, 0, 1, 100, 100000, -5]))
            return {"t": "host", "host": h, "first_line": fl, "src": draw(gp.programs(h, exec_safe=True, size=draw(st.integers(2, 4)), bulk=False))}
        return case()

    def strata(self, ctx):
        out = []
        for h in HOSTS:
            @st.composite
            def host_case(draw, h=h):
                fl = draw(st.sampled_from([None, None, 0, 1, 100, 100000, -5]))
                return {"t": "host", "host": h, "first_line": fl,
                        "src": draw(gp.programs(h, exec_safe=True, size=draw(st.integers(2, 4)), bulk=False))}
            out.append(["std-on-host:" + h, host_case(), 6])
        for v in ALL_VERSIONS:
            @st.composite
            def api_case(draw, v=v):
                h = draw(st.sampled_from([t for t in HOSTS if t != v]))
                return {"t": "api", "host": h, "v": v, "src": draw(gp.programs(v, size=draw(st.integers(2, 4))))}
            out.append(["make_std_api:" + v, api_case(), 1])

            # the same route on assembled code objects (operands with EXTENDED_ARG prefixes, jumps anywhere)
            @st.composite
            def api_asm(draw, v=v):
                h = draw(st.sampled_from([t for t in HOSTS if t != v]))
                return {"t": "api", "host": h, "v": v, "src": "", "items": draw(ga.asm_cases(v, self.pp.tables(ctx, v), padding=False))}
            out.append(["make_std_api-asm:" + v, api_asm(), 1])
        return out

    def fixed_cases(self, ctx):
        from vf.gen import tables as gt
        # handler targets far into a code object (3-byte varints in the exception table), on every host that has the table
        for h in HOSTS:
            if pd.vt(h) >= (3, 11):
                entries = [[10, 5, 4100, 1, False], [4200, 3, 4300, 0, True], [2, 1, 70, 2, False]]
                yield {"t": "host", "host": h, "first_line": None, "src": "pass\n", "exc": entries, "units": 4400}
        # every opcode of every version once through make_std_api on a foreign host
        for v in ALL_VERSIONS:
            h = [t for t in HOSTS if t != v][len(v) % 5]
            for items in ga.opcode_sweeps(self.pp.tables(ctx, v)):
                yield {"t": "api", "host": h, "v": v, "src": "", "items": items}

    def judge(self, case, ctx):
        res = Result()
        h = case.get("host")
        if h not in HOSTS or not isinstance(case.get("src"), str):
            res.reject = "malformed-case"
            return res
        if case.get("t") == "host":
            kw = {}
            if case.get("exc") is not None:
                from vf.gen import tables as gt
                try:
                    kw = {"exc_hex": rw.hx(gt.encode_exctab(case["exc"])), "units": int(case["units"]), "max_code": 2 * int(case["units"]) + 10}
                    if not (1 <= kw["units"] <= 6000):
                        raise ValueError
                except Exception:
                    res.reject = "malformed-case"
                    return res
            r = ctx.pool.host(h).call("x_std", src=case["src"], first_line=case.get("first_line"), **kw)
            if "reject" in r:
                res.reject = "compiler-rejects:" + r["reject"].split(":")[0]
                return res
            for sig, msg in r["fails"]:
                res.fail("C20|%s|%s" % (h, sig), msg)
            kinds = r["kinds"]
            fl = case.get("first_line")
            res.nontrivial = fl is not None or any(k not in ("function", "code") for k in kinds)
            res.key = [h, fl, case["src"]]
            res.evals = sum(kinds.values())
            res.classes = ["host:" + h, "first_line:" + ("None" if fl is None else "given")] + ["kind:" + k for k in sorted(kinds)]
            res.sample = {"host": h, "first_line": fl, "objects": kinds, "source_head": case["src"][:200]}
            return res
        if case.get("t") == "api" and case.get("v") in ALL_VERSIONS and case["v"] != h:
            v = case["v"]
            if case.get("items"):
                ref = self.pp.reference({"k": "asm", "v": v, "items": case["items"]}, ctx)
            else:
                ref = ctx.pool.ref(v).call("compile", src=case["src"], dis=True)
            if "reject" in ref:
                res.reject = "compiler-rejects:" + ref["reject"].split(":")[0]
                return res
            data = rw.hx(rw.unhx(ref["header"]) + rw.unhx(ref["payload"]))
            r = ctx.pool.host(h).call_raw("x_std_api", data=data, version=v, max_code=2000)
            res.classes = ["make_std_api:%s-on-%s" % (v, h)]
            res.key = ["api", h, v, case["src"] or case.get("items")]
            res.nontrivial = True
            res.sample = {"host": h, "make_std_api": v, "source_head": case["src"][:200]}
            if not r["ok"]:
                res.fail("C20|make_std_api|%s|raised|%s" % (v, r["err"].split(":")[0]), "make_std_api(%s) on host %s: %s" % (v, h, r["err"][:300]))
                return res
            x = {"tree": ref["tree"], "dis": r["r"]["dis"]}
            c = pd.compare_program(v, ref, x)
            for a in ("tiling", "decode", "argval", "jump", "labels", "lines"):
                for sig, msg in c.fails.get(a, []):
                    if "is_jump_target" in sig:
                        continue        # get_instructions (like dis's) has no handler targets; flags are case A's subject
                    res.fail("C20|make_std_api|%s|%s" % (a, sig), "make_std_api(%s) on host %s: %s" % (v, h, msg))
            return res
        res.reject = "malformed-case"
        return res


PROP = C20()
