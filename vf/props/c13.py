"""C13 - a bytecode file read and written back is the same program for its Python."""
import os
import re
import struct
import subprocess

from hypothesis import strategies as st

from vf import canon as cn
from vf import progdiff as pd
from vf import refworker as rw
from vf.gen import prog as gp
from vf.pool import HOSTS, interpreters
from vf.props.c10 import xdis_frame
from vf.run import Result

TARGETS = ["2.7", "3.6", "3.7", "3.8", "3.9", "3.10", "3.11", "3.12", "3.13"]


def run_pyc(exe, path, cwd):
    env = {"PATH": "/usr/bin:/bin", "PYTHONHASHSEED": "0", "PYTHONDONTWRITEBYTECODE": "1", "HOME": cwd}
    try:
        p = subprocess.run([exe, "-S", path], cwd=cwd, env=env, stdin=subprocess.DEVNULL, stdout=subprocess.PIPE,
                           stderr=subprocess.PIPE, timeout=10)
    except subprocess.TimeoutExpired:
        return None
    err = p.stderr.decode("utf-8", "replace").strip().splitlines()
    # object addresses differ between two processes (ASLR): not the program's doing
    addr = re.compile(r"0x[0-9a-fA-F]{6,}")
    return {"rc": p.returncode, "out": addr.sub("0xADDR", p.stdout.decode("utf-8", "replace")[-4000:]),
            "err_last": addr.sub("0xADDR", err[-1][:300]) if err else ""}


class C13:
    id = "C13"
    rule = ("case = (target version 2.7/3.6-3.13, terminating G-PROG program or constant-rich module, xdis host: 3.12 "
            "driver = portable path, or the target's own interpreter = native path); the file compiled by the target "
            "CPython is loaded by xdis and written with write_bytecode_file; oracle: the target CPython's marshal.loads "
            "of the new payload == its load of the original (canonical tree), header = magic + given timestamp/size, "
            "xdis re-load == first load, and running original and rewritten file under the target gives the same exit "
            "status / stdout / last stderr line; a writer that raises has 'refused' (allowed); non-trivial = nested "
            "code, >= 3 constant kinds, write not refused; distinct = (target, host, source)")
    assumptions = ["the target CPython's marshal and interpreter are ground truth",
                   "programs are deterministic and terminate (bounded loops, no imports); a 10 s timeout on the ORIGINAL "
                   "file rejects the case"]
    budgets = {"quick": {"shards": 14, "examples": 120, "seconds": 70},
               "thorough": {"shards": 16, "examples": 1200, "seconds": 1500}}

    def strata(self, ctx):
        out = []
        for v in TARGETS:
            for host in (["3.12", v] if v in HOSTS and v != "3.12" else ["3.12"]):
                for kind, w in (("exec", 2), ("consts", 1), ("fields", 1)):

                    out.append(["%s:%s:on-%s" % (kind, v, host), self.case_strategy(v, host, kind), w])
        return out

    def strategy(self, ctx):
        return st.one_of([s_ for _, s_, _ in self.strata(ctx)])

    def case_strategy(self, v, host, kind):
        @st.composite
        def case(draw):
            if kind == "fields":
                # a hand-built code object: header integers that no compiler derives from one another
                nvars = draw(st.integers(0, 6))
                return {"v": v, "host": host, "k": "fields", "nvars": nvars, "nlocals": draw(st.integers(0, nvars)),
                        "argcount": draw(st.integers(0, nvars)), "stacksize": draw(st.sampled_from([0, 1, 7, 300, 70000])),
                        "flags": draw(st.sampled_from([0, 0x40, 0x43, 0x20, 0x2000, 0x10000])),
                        "firstlineno": draw(st.sampled_from([0, 1, 255, 70000])),
                        "ts": draw(st.sampled_from([1, 1234567])), "size": draw(st.sampled_from([0, 4321]))}
            if kind == "exec":
                src = draw(gp.programs(v, exec_safe=True, size=draw(st.integers(2, 4))))
            else:
                g = gp.Gen(draw, v, exec_safe=True)
                lines = ["def f(a=%s):" % g.const(), "    return [%s]" % ", ".join(g.const() for _ in range(draw(st.integers(1, 6))))]
                lines += ["k%d = %s" % (i, g.const()) for i in range(draw(st.integers(1, 8)))]
                if draw(st.integers(0, 3)) == 0:
                    # integers of thousands of bits (marshal writes 15-bit digits: lengths that are multiples of 15, and not)
                    nd = draw(st.sampled_from([975, 976, 1125, 1500, 260, 4000]))
                    lines += ["big1 = 0x%s" % ("f" * nd), "big2 = -0x1%s" % ("0" * nd), "print(big1 % 1000003, big2 % 999983)"]
                lines += ["print(repr(f()))", "print(sorted(n for n in dir() if n.startswith('k')))"]
                src = "\n".join(lines) + "\n"
            return {"v": v, "host": host, "src": src, "ts": draw(st.sampled_from([1, 1234567, 2 ** 31 - 1])),
                    "size": draw(st.sampled_from([0, 4321, 2 ** 32 - 1]))}
        return case()

    def fixed_cases(self, ctx):
        from vf.props.c01 import COUSIN
        for rel in pd.corpus_files():
            d = rel.split("/")[0].replace("bytecode_", "")
            if d in COUSIN and "pypy" not in d:
                yield {"k": "corpus", "path": rel}

    def judge_corpus(self, case, ctx):
        """files of versions nobody can run (2.3-2.6, 3.0-3.5) and the other sample files: rewritten, then read by the
        interpreter with the identical code layout, and scanned for type codes the target's marshal does not know"""
        from vf.props.c01 import COUSIN
        from vf.ref import refscan
        res = Result()
        rel = case.get("path", "")
        d = rel.split("/")[0].replace("bytecode_", "")
        path = os.path.join(pd.CORPUS_DIR, rel)
        if d not in COUSIN or "pypy" in d or not os.path.isfile(path):
            res.reject = "malformed-case"
            return res
        if os.path.getsize(path) > (30000 if ctx.tier == "quick" else 10 ** 6):
            res.reject = "corpus-file-too-big-for-tier"
            return res
        vt = pd.vt(d)
        hl = 8 if vt < (3, 3) else (12 if vt < (3, 7) else 16)
        orig = open(path, "rb").read()
        cousin = COUSIN[d]
        sig = "C13|corpus|%s" % d
        res.classes = ["corpus:" + d, "reference:" + cousin]
        res.sample = {"corpus_file": rel, "reference_interpreter": cousin}
        res.key = [rel]
        ref = ctx.pool.ref(cousin).call_raw("loads", payload=rw.hx(orig[hl:]))
        if not ref["ok"] or "reject" in ref["r"]:
            res.reject = "cousin-interpreter-cannot-load:%s" % d
            return res
        ref = ref["r"]
        r = ctx.pool.host("3.12").call_raw("x_rewrite", data=rw.hx(orig), ts=1234567, size=4321)
        if not r["ok"]:
            res.reject = "xdis-cannot-load(C01's subject)"
            return res
        r = r["r"]
        if "refused" in r:
            res.classes.append("writer-refused:" + r["refused"].split(":")[0])
            return res
        new = rw.unhx(r["data"])
        res.nontrivial = cn.count_codes(ref["tree"]) >= 2
        exp_header = orig[:4] + (struct.pack("<I", 0) if vt >= (3, 7) else b"") + struct.pack("<I", 1234567) + (
            struct.pack("<I", 4321) if vt >= (3, 3) else b"")
        if new[:hl] != exp_header:
            res.fail(sig + "|header", "%s: header written %s, expected %s" % (rel, rw.hx(new[:hl]), rw.hx(exp_header)))
        try:
            bad = refscan.not_for_version(new[hl:], vt)
        except refscan.ScanError as e:
            res.fail(sig + "|payload-not-a-marshal-stream", "%s: rewritten payload cannot be walked: %s" % (rel, e))
            return res
        if bad:
            res.fail(sig + "|type-codes-unknown-to-target|%s" % "".join(sorted(bad)), "%s: rewritten payload uses marshal type codes %s, which "
                     "Python %s cannot read" % (rel, sorted(bad), d))
        back = ctx.pool.ref(cousin).call_raw("loads", payload=rw.hx(new[hl:]))
        if not back["ok"] or "reject" in back["r"]:
            res.fail(sig + "|cousin-rejects", "%s: CPython %s (same code layout) cannot load the rewritten payload: %s" % (
                rel, cousin, back["r"].get("reject") if back["ok"] else "died"))
            return res
        dd = cn.diff(ref["tree"], back["r"]["tree"])
        if dd and _nan_only(ref["tree"], back["r"]["tree"]):
            dd = None
        if dd:
            res.fail(sig + "|tree|%s|exp=%s|got=%s" % (cn.field_of(dd[0]) or "const", pd.kshort(dd[1]), pd.kshort(dd[2])),
                     "%s: rewritten file loads differently in CPython %s at %s: original %s, rewritten %s" % (rel, cousin, dd[0], dd[1], dd[2]))
        return res

    def judge(self, case, ctx):
        if case.get("k") == "corpus":
            return self.judge_corpus(case, ctx)
        res = Result()
        v, host = case.get("v"), case.get("host")
        fields = case.get("k") == "fields"
        if v not in TARGETS or host not in HOSTS or not (fields or isinstance(case.get("src"), str)):
            res.reject = "malformed-case"
            return res
        if fields:
            from vf.ref import refmarshal as rm
            try:
                nvars = int(case["nvars"])
                extra = {"co_nlocals": ["i", str(int(case["nlocals"]))], "co_argcount": ["i", str(int(case["argcount"]))],
                         "co_stacksize": ["i", str(int(case["stacksize"]))], "co_flags": ["i", str(int(case["flags"]))],
                         "co_firstlineno": ["i", str(int(case["firstlineno"]))]}
                if not (0 <= nvars <= 50) or any(not (0 <= int(x_[1]) < 2 ** 31) for x_ in extra.values()):
                    raise ValueError
            except Exception:
                res.reject = "malformed-case"
                return res
            if pd.vt(v) >= (3, 11):
                # no co_nlocals field; instead: a qualified name that is empty, or differs from the name in odd ways
                del extra["co_nlocals"]
                if int(extra["co_stacksize"][1]) == 0:
                    extra["co_stacksize"] = ["i", "1"]      # (3.13's code constructor raises a zero stack size to 1 itself)
                q = ["", "f", "<locals>.f", "a.b.<locals>.\u00e9"][int(case["nlocals"]) % 4]
                extra["co_qualname"] = ["t", rw.hx(q.encode("utf-8"))]
            tree = rm.template_code_tree(v, ["T", [["N"], ["i", "7"], ["b", 1], ["b", 0], ["i", "1"], ["i", "0"]]], varnames=["v%d" % i for i in range(nvars)], extra=extra)
            payload, _ = rm.encode(tree, v)
            hdr = ctx.pool.ref(v).call("compile", src="pass", dis=False, filename="prog.py")["header"]
            ld = ctx.pool.ref(v).call_raw("loads", payload=rw.hx(payload))
            if not ld["ok"] or "reject" in ld["r"]:
                res.reject = "cpython-rejects-these-fields"
                return res
            ref = {"header": hdr, "payload": rw.hx(payload), "tree": ld["r"]["tree"]}
            case = dict(case, src="<hand-built code object: %s>" % sorted(extra.items()))
        else:
            ref = ctx.pool.ref(v).call("compile", src=case["src"], dis=False, filename="prog.py")
        if "reject" in ref:
            res.reject = "compiler-rejects:" + ref["reject"].split(":")[0]
            return res
        vt = pd.vt(v)
        orig = rw.unhx(ref["header"]) + rw.unhx(ref["payload"])
        hl = len(rw.unhx(ref["header"]))
        sig = "C13|%s|%s" % (v, "native" if host == v else "portable")
        kinds = cn.const_kinds(ref["tree"])
        ncode = cn.count_codes(ref["tree"])
        res.key = [v, host, case["src"]]
        res.classes = ["target:" + v, "path:" + ("native" if host == v else "portable")] + sorted("const:" + k for k in kinds)
        res.sample = {"target": v, "xdis_host": host, "source_head": case["src"][:240]}
        r = ctx.pool.host(host).call_raw("x_rewrite", data=rw.hx(orig), ts=case["ts"], size=case["size"])
        if not r["ok"]:
            res.reject = "xdis-cannot-load(C01's subject)"
            return res
        if r.get("out"):
            res.fail("C13|stdout-noise", "load/write printed to stdout: %r" % r["out"][:200])
        r = r["r"]
        if "refused" in r:
            res.classes.append("writer-refused:" + r["refused"].split(":")[0])
            ctx.extra.setdefault("refused", {})
            ctx.extra["refused"][v] = ctx.extra["refused"].get(v, 0) + 1
            return res
        new = rw.unhx(r["data"])
        res.nontrivial = ncode >= 2 and len(kinds) >= 3
        # header
        exp_header = orig[:4] + (struct.pack("<I", 0) if vt >= (3, 7) else b"") + struct.pack("<I", case["ts"]) + (
            struct.pack("<I", case["size"]) if vt >= (3, 3) else b"")
        if new[:hl] != exp_header:
            res.fail(sig + "|header", "header written %s, expected %s" % (rw.hx(new[:hl]), rw.hx(exp_header)))
        # target's own view of the new payload
        back = ctx.pool.ref(v).call_raw("loads", payload=rw.hx(new[hl:]))
        if not back["ok"]:
            res.fail(sig + "|target-cannot-load|worker-died", "target %s died loading the rewritten payload" % v)
            return res
        back = back["r"]
        if "reject" in back:
            res.fail(sig + "|target-rejects|%s" % back["reject"].split(":")[0], "CPython %s rejects the rewritten payload: %s" % (v, back["reject"]))
            return res
        d = cn.diff(ref["tree"], back["tree"])
        if d and _nan_only(ref["tree"], back["tree"]):
            res.fail("C13|%s|nan-sign-lost-by-text-float" % v, "NaN constant changes sign/payload: %s -> %s at %s" % (d[1], d[2], d[0]))
            d = None
        if d:
            res.fail(sig + "|tree|%s|exp=%s|got=%s" % (cn.field_of(d[0]) or "const", pd.kshort(d[1]), pd.kshort(d[2])),
                     "rewritten file loads differently in CPython %s at %s: original %s, rewritten %s" % (v, d[0], d[1], d[2]))
        # xdis re-load
        x1, e1 = pd.xdis_dump(orig, 0)
        x2, e2 = pd.xdis_dump(new, 0)
        if e2 and not e1:
            res.fail(sig + "|xdis-reload-raised|%s" % e2[0], "xdis cannot re-load its own output: %s: %s" % (e2[0], e2[1]))
        elif x1 and x2:
            # (CPython's code constructor sets CO_NOFREE itself up to 3.10: a native-path rewrite stores the bit)
            from vf.props.c01 import _mask_nofree
            d2 = cn.diff(_mask_nofree(x1["tree"]), _mask_nofree(x2["tree"]))
            if d2 and _nan_only(x1["tree"], x2["tree"]):
                res.fail("C13|%s|nan-sign-lost-by-text-float" % v, "NaN constant changes sign/payload on re-load: %s -> %s at %s" % (d2[1], d2[2], d2[0]))
            elif d2:
                res.fail(sig + "|xdis-reload-differs|%s" % (cn.field_of(d2[0]) or "const"), "xdis reads its output differently at %s: %s vs %s" % d2)
        # execution
        if not d and not fields:
            exe = interpreters()[v]
            p1 = os.path.join(ctx.scratch, "orig.pyc")
            p2 = os.path.join(ctx.scratch, "new.pyc")
            open(p1, "wb").write(orig)
            open(p2, "wb").write(new)
            o1 = run_pyc(exe, p1, ctx.scratch)
            if o1 is None:
                res.classes.append("original-timeout(not executed)")
            else:
                o2 = run_pyc(exe, p2, ctx.scratch)
                res.classes.append("executed:rc=%s" % ("0" if o1["rc"] == 0 else "nonzero"))
                if o2 != o1:
                    res.fail(sig + "|execution-differs", "original: %s; rewritten: %s" % (o1, o2))
        return res


def _nan_only(a, b):
    """the two trees differ, but only in the sign/payload of NaN floats"""
    return a != b and cn.normalize_nan(a) == cn.normalize_nan(b)


PROP = C13()
