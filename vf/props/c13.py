"""C13 - a bytecode file read and written back is the same program for its Python."""
import os
import re
import struct
import subprocess

from hypothesis import strategies as st

from vf import canon as cn
from vf import progdiff as pd
from vf import refworker as rw
from vf.gen import prog as gp
from vf.pool import HOSTS, interpreters
from vf.props.c10 import xdis_frame
from vf.run import Result

TARGETS = ["2.7", "3.6", "3.7", "3.8", "3.9", "3.10", "3.11", "3.12", "3.13"]


def run_pyc(exe, path, cwd):
    env = {"PATH": "/usr/bin:/bin", "PYTHONHASHSEED": "0", "PYTHONDONTWRITEBYTECODE": "1", "HOME": cwd}
    try:
        p = subprocess.run([exe, "-S", path], cwd=cwd, env=env, stdin=subprocess.DEVNULL, stdout=subprocess.PIPE,
                           stderr=subprocess.PIPE, timeout=10)
    except subprocess.TimeoutExpired:
        return None
    err = p.stderr.decode("utf-8", "replace").strip().splitlines()
    # object addresses differ between two processes (ASLR): not the program's doing
    addr = re.compile(r"0x[0-9a-fA-F]{6,}")
    return {"rc": p.returncode, "out": addr.sub("0xADDR", p.stdout.decode("utf-8", "replace")[-4000:]),
            "err_last": addr.sub("0xADDR", err[-1][:300]) if err else ""}


class C13:
    id = "C13"
    rule = ("case = (target version 2.7/3.6-3.13, terminating G-PROG program or constant-rich module, xdis host: 3.12 "
            "driver = portable path, or the target's own interpreter = native path); the file compiled by the target "
            "CPython is loaded by xdis and written with write_bytecode_file; oracle: the target CPython's marshal.loads "
            "of the new payload == its load of the original (canonical tree), header = magic + given timestamp/size, "
            "xdis re-load == first load, and running original and rewritten file under the target gives the same exit "
            "status / stdout / last stderr line; a writer that raises has 'refused' (allowed); non-trivial = nested "
            "code, >= 3 constant kinds, write not refused; distinct = (target, host, source)")
    assumptions = ["the target CPython's marshal and interpreter are ground truth",
                   "programs are deterministic and terminate (bounded loops, no imports); a 10 s timeout on the ORIGINAL "
                   "file rejects the case"]
    budgets = {"quick": {"shards": 14, "examples": 120, "seconds": 70},
               "thorough": {"shards": 16, "examples": 1200, "seconds": 1500}}

    def strategy(self, ctx):
        @st.composite
        def case(draw):
            v = draw(st.sampled_from(TARGETS))
            host = draw(st.sampled_from(["3.12", v])) if v in HOSTS else "3.12"
            kind = draw(st.sampled_from(["exec", "exec", "consts"]))
            if kind == "exec":
                src = draw(gp.programs(v, exec_safe=True, size=draw(st.integers(2, 4))))
            else:
                g = gp.Gen(draw, v, exec_safe=True)
                lines = ["def f(a=%s):" % g.const(), "    return [%s]" % ", ".join(g.const() for _ in range(draw(st.integers(1, 6))))]
                lines += ["k%d = %s" % (i, g.const()) for i in range(draw(st.integers(1, 8)))]
                lines += ["print(repr(f()))", "print(sorted(n for n in dir() if n.startswith('k')))"]
                src = "\n".join(lines) + "\n"
            return {"v": v, "host": host, "src": src, "ts": draw(st.sampled_from([1, 1234567, 2 ** 31 - 1])),
                    "size": draw(st.sampled_from([0, 4321, 2 ** 32 - 1]))}
        return case()

    def judge(self, case, ctx):
        res = Result()
        v, host = case.get("v"), case.get("host")
        if v not in TARGETS or host not in HOSTS or not isinstance(case.get("src"), str):
            res.reject = "malformed-case"
            return res
        ref = ctx.pool.ref(v).call("compile", src=case["src"], dis=False, filename="prog.py")
        if "reject" in ref:
            res.reject = "compiler-rejects:" + ref["reject"].split(":")[0]
            return res
        vt = pd.vt(v)
        orig = rw.unhx(ref["header"]) + rw.unhx(ref["payload"])
        hl = len(rw.unhx(ref["header"]))
        sig = "C13|%s|%s" % (v, "native" if host == v else "portable")
        kinds = cn.const_kinds(ref["tree"])
        ncode = cn.count_codes(ref["tree"])
        res.key = [v, host, case["src"]]
        res.classes = ["target:" + v, "path:" + ("native" if host == v else "portable")] + sorted("const:" + k for k in kinds)
        res.sample = {"target": v, "xdis_host": host, "source_head": case["src"][:240]}
        r = ctx.pool.host(host).call_raw("x_rewrite", data=rw.hx(orig), ts=case["ts"], size=case["size"])
        if not r["ok"]:
            res.reject = "xdis-cannot-load(C01's subject)"
            return res
        if r.get("out"):
            res.fail("C13|stdout-noise", "load/write printed to stdout: %r" % r["out"][:200])
        r = r["r"]
        if "refused" in r:
            res.classes.append("writer-refused:" + r["refused"].split(":")[0])
            ctx.extra.setdefault("refused", {})
            ctx.extra["refused"][v] = ctx.extra["refused"].get(v, 0) + 1
            return res
        new = rw.unhx(r["data"])
        res.nontrivial = ncode >= 2 and len(kinds) >= 3
        # header
        exp_header = orig[:4] + (struct.pack("<I", 0) if vt >= (3, 7) else b"") + struct.pack("<I", case["ts"]) + (
            struct.pack("<I", case["size"]) if vt >= (3, 3) else b"")
        if new[:hl] != exp_header:
            res.fail(sig + "|header", "header written %s, expected %s" % (rw.hx(new[:hl]), rw.hx(exp_header)))
        # target's own view of the new payload
        back = ctx.pool.ref(v).call_raw("loads", payload=rw.hx(new[hl:]))
        if not back["ok"]:
            res.fail(sig + "|target-cannot-load|worker-died", "target %s died loading the rewritten payload" % v)
            return res
        back = back["r"]
        if "reject" in back:
            res.fail(sig + "|target-rejects|%s" % back["reject"].split(":")[0], "CPython %s rejects the rewritten payload: %s" % (v, back["reject"]))
            return res
        d = cn.diff(ref["tree"], back["tree"])
        if d and _nan_only(ref["tree"], back["tree"]):
            res.fail("C13|%s|nan-sign-lost-by-text-float" % v, "NaN constant changes sign/payload: %s -> %s at %s" % (d[1], d[2], d[0]))
            d = None
        if d:
            res.fail(sig + "|tree|%s|exp=%s|got=%s" % (cn.field_of(d[0]) or "const", pd.kshort(d[1]), pd.kshort(d[2])),
                     "rewritten file loads differently in CPython %s at %s: original %s, rewritten %s" % (v, d[0], d[1], d[2]))
        # xdis re-load
        x1, e1 = pd.xdis_dump(orig, 0)
        x2, e2 = pd.xdis_dump(new, 0)
        if e2 and not e1:
            res.fail(sig + "|xdis-reload-raised|%s" % e2[0], "xdis cannot re-load its own output: %s: %s" % (e2[0], e2[1]))
        elif x1 and x2:
            d2 = cn.diff(x1["tree"], x2["tree"])
            if d2 and _nan_only(x1["tree"], x2["tree"]):
                res.fail("C13|%s|nan-sign-lost-by-text-float" % v, "NaN constant changes sign/payload on re-load: %s -> %s at %s" % (d2[1], d2[2], d2[0]))
            elif d2:
                res.fail(sig + "|xdis-reload-differs|%s" % (cn.field_of(d2[0]) or "const"), "xdis reads its output differently at %s: %s vs %s" % d2)
        # execution
        if not d:
            exe = interpreters()[v]
            p1 = os.path.join(ctx.scratch, "orig.pyc")
            p2 = os.path.join(ctx.scratch, "new.pyc")
            open(p1, "wb").write(orig)
            open(p2, "wb").write(new)
            o1 = run_pyc(exe, p1, ctx.scratch)
            if o1 is None:
                res.classes.append("original-timeout(not executed)")
            else:
                o2 = run_pyc(exe, p2, ctx.scratch)
                res.classes.append("executed:rc=%s" % ("0" if o1["rc"] == 0 else "nonzero"))
                if o2 != o1:
                    res.fail(sig + "|execution-differs", "original: %s; rewritten: %s" % (o1, o2))
        return res


def _nan_only(a, b):
    """the two trees differ, but only in the sign/payload of NaN floats"""
    return a != b and cn.normalize_nan(a) == cn.normalize_nan(b)


PROP = C13()
