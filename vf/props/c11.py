"""C11 - corrupt or hostile bytecode files fail cleanly."""
import os
import struct

from hypothesis import strategies as st

from vf import magicreg
from vf import progdiff as pd
from vf import refworker as rw
from vf.gen import dropbox as gdb
from vf.pool import HOSTS, WorkerDied
from vf.props.c10 import xdis_frame
from vf.run import Result

TINY = "def f(a, b=2):\n    return [a, b, 'x', 1.5, (1, 2)]\nclass A:\n    c = {1, 2}\nprint(f(1))\n"
ADV_VERSIONS = ["2.7", "3.3", "3.8", "3.11", "3.12", "3.13", "2.5"]


def header_for(magics, v):
    vt = tuple(int(x) for x in v.split("."))
    m = struct.pack("<H", magics[vt]) + b"\r\n"
    if vt >= (3, 7):
        return m + struct.pack("<III", 0, 0, 0)
    if vt >= (3, 3):
        return m + struct.pack("<II", 0, 0)
    return m + struct.pack("<I", 0)


def i32(n):
    return struct.pack("<i", n if n < 2 ** 31 else n - 2 ** 32)


def adversarial(name, p):
    """payload bytes of one adversarial template (p: small dict of drawn parameters)"""
    n = p.get("n", 0)
    if name == "tuple-count-lies":
        return b"(" + i32(p["count"]) + b"N" * n
    if name == "list-count-lies":
        return b"[" + i32(p["count"]) + b"i\x01\x00\x00\x00" * n
    if name == "set-count-lies":
        return b"<" + i32(p["count"]) + b"N" * n
    if name == "many-tiny-elements":
        return b"(" + i32(n) + b"N" * n
    if name in ("many-elements-in-frozenset", "many-elements-in-set", "many-keys-in-dict"):
        m = max(1, min(n, 400000))
        ints = b"".join(b"i" + i32(j) for j in range(m))
        if name == "many-keys-in-dict":
            return b"{" + b"".join(b"i" + i32(j) + b"N" for j in range(m)) + b"0"
        return (b">" if name.endswith("frozenset") else b"<") + i32(m) + ints
    if name == "many-tiny-elements-in-code":
        return code_with_consts(b"(" + i32(n) + b"N" * n, p["v"])
    if name == "deep-nesting":
        return b"(\x01\x00\x00\x00" * n + b"N"
    if name == "deep-nesting-lists":
        return b"[\x01\x00\x00\x00" * n + b"N"
    if name == "deep-nesting-dicts":
        return b"{N" * n + b"N" + b"0" * n
    if name == "ref-out-of-range":
        return b"(\x02\x00\x00\x00" + b"r" + i32(p["count"]) + b"N"
    if name == "self-reference":
        return bytes([ord("(") | 0x80]) + i32(2) + b"r" + i32(0) + b"N"
    if name == "self-reference-in-set":
        return bytes([ord("<") | 0x80]) + i32(1) + b"r" + i32(0)
    if name == "string-length-lies":
        return b"s" + i32(p["count"]) + b"abc" * n
    if name == "unicode-length-lies":
        return b"u" + i32(p["count"]) + b"\xff\xfe" * n
    if name == "long-digit-count-lies":
        return b"l" + i32(p["count"]) + b"\x01\x00" * n
    if name == "unknown-type-codes":
        return bytes([p["count"] % 256]) * max(1, n)
    if name == "dict-no-terminator":
        return b"{" + b"i\x01\x00\x00\x00N" * n
    if name == "code-with-garbage-fields":
        return b"c" + i32(p["count"]) * 6 + b"N" * max(8, n)
    if name == "stringref-out-of-range":
        return b"(\x01\x00\x00\x00R" + i32(p["count"])
    if name == "unhashable-in-set":
        return b"<" + i32(1) + b"[" + i32(0)
    if name == "null-in-odd-places":
        return b"(" + i32(3) + b"0N0"
    if name == "list-containing-itself":
        return bytes([ord("[") | 0x80]) + i32(2) + b"r" + i32(0) + b"N"
    if name == "dict-containing-itself":
        return bytes([ord("{") | 0x80]) + b"i\x01\x00\x00\x00" + b"r" + i32(0) + b"0"
    if name in ("tuple-dag-in-code-consts", "tuple-dag-in-code-names"):
        depth = max(2, min(n, 60))
        dag = b"(" + i32(depth) + bytes([ord("(") | 0x80]) + i32(2) + b"NN"
        for i in range(1, depth):
            dag += bytes([ord("(") | 0x80]) + i32(2) + b"r" + i32(i - 1) + b"r" + i32(i - 1)
        if name.endswith("consts"):
            return code_with_consts(dag, p["v"])
        return code_with_names(dag, p["v"])
    if name in ("tuple-dag", "tuple-dag-in-set", "tuple-dag-as-dict-key"):
        # level 0 = (N, N); level i = (level i-1, level i-1) by back-reference: 2^depth leaves if walked naively
        depth = max(2, min(n, 60))
        out = b"(" + i32(depth + (1 if name != "tuple-dag" else 0))
        out += bytes([ord("(") | 0x80]) + i32(2) + b"NN"
        for i in range(1, depth):
            out += bytes([ord("(") | 0x80]) + i32(2) + b"r" + i32(i - 1) + b"r" + i32(i - 1)
        if name == "tuple-dag-in-set":
            out += b"<" + i32(1) + b"r" + i32(depth - 1)
        elif name == "tuple-dag-as-dict-key":
            out += b"{" + b"r" + i32(depth - 1) + b"N" + b"0"
        return out
    if name == "dropbox-encrypted":
        # well-formed encryption around a code object whose code bytes and constants are drawn: opcodes missing from the
        # substitution table, hostile marshal data inside the constants (it reaches the in-memory reader decrypted)
        code = bytes([(n * 7 + j * 13 + p.get("count", 0)) % 256 for j in range(4 + n % 9)])
        inner = [b"(" + i32(1) + b"N", b"(" + i32(p.get("count", 0)) + b"s" + i32(-5), b"(" + i32(2) + b"s" + i32(p.get("count", 0)) + b"ab",
                 b"[" + i32(p.get("count", 0)) + b"N", b"{" + b"NN" * (n % 5), b"R" + i32(p.get("count", 0)), b"?"][n % 7]
        return b"DROPBOX" + gdb.inner_code(code, inner)
    if name == "negative-length-in-big-container":
        # a container claiming `count` elements whose every element is a string of negative length: a reader that
        # moves its position by the length goes backwards and never reaches the end of the data
        elem = [b"s", b"u", b"t", b"a", b"z\xfb"][n % 5]
        body = elem + (i32(-5 - n % 7) if not elem.startswith(b"z") else b"")
        return [b"(", b"[", b"<"][n % 3] + i32(p["count"]) + body + b"N" * 8
    if name == "float-text-long-digits":
        # a text float that is ALMOST a number: a long digit run and one junk byte (validators with nested quantifiers)
        k = max(20, min(n if n > 0 else 48, 250))
        body = [b"1" * k + b"x", b"1." * (k // 2) + b"x", b"9" * (k - 4) + b"e5_x", b"-" + b"0" * (k - 1) + b"."][p.get("count", 0) % 4][:255]
        return b"(" + i32(2) + b"f" + bytes([len(body)]) + body + b"x" + bytes([len(body)]) + body + bytes([len(body)]) + body
    if name == "many-interned-strings":
        m = max(1, min(n, 200000))
        return b"(" + i32(m) + b"".join(b"t" + i32(5) + (b"%05d" % j) for j in range(m))
    if name == "negative-length-string":
        return [b"s", b"u", b"t", b"a", b"A", b"l"][n % 6] + i32(-1 - n)
    if name == "float-text-garbage":
        return b"f\x05nan!!" + b"x\x03abc\x031e5"
    return b"?"


def code_with_names(names, v):
    """a code object whose co_names is the given object (co_consts an empty tuple)"""
    vt = tuple(int(x) for x in v.split("."))
    out = b"c"
    if vt >= (3, 11):
        out += i32(0) * 3 + i32(1) + i32(64)
    elif vt >= (3, 8):
        out += i32(0) * 4 + i32(1) + i32(64)
    elif vt >= (3, 0):
        out += i32(0) * 3 + i32(1) + i32(64)
    else:
        out += i32(0) * 2 + i32(1) + i32(64)
    out += b"s" + i32(4) + b"d\x00S\x00" + b"(" + i32(0) + names
    return out + b"N" * 12


def code_with_consts(consts, v):
    vt = tuple(int(x) for x in v.split("."))
    out = b"c"
    if vt >= (3, 11):
        out += i32(0) * 3 + i32(1) + i32(64)
    elif vt >= (3, 8):
        out += i32(0) * 4 + i32(1) + i32(64)
    elif vt >= (3, 0):
        out += i32(0) * 3 + i32(1) + i32(64)
    else:
        out += i32(0) * 2 + i32(1) + i32(64)
    out += b"s" + i32(4) + b"d\x00S\x00" + consts
    return out + b"N" * 12


ADV_NAMES = ["tuple-count-lies", "list-count-lies", "set-count-lies", "many-tiny-elements", "many-tiny-elements-in-code",
             "deep-nesting", "deep-nesting-lists", "deep-nesting-dicts", "ref-out-of-range", "self-reference",
             "self-reference-in-set", "string-length-lies", "unicode-length-lies", "long-digit-count-lies", "unknown-type-codes",
             "dict-no-terminator", "code-with-garbage-fields", "stringref-out-of-range", "unhashable-in-set",
             "null-in-odd-places", "float-text-garbage", "negative-length-in-big-container", "negative-length-string", "dropbox-encrypted", "list-containing-itself", "dict-containing-itself", "tuple-dag",
             "tuple-dag-in-set", "tuple-dag-as-dict-key", "tuple-dag-in-code-consts", "tuple-dag-in-code-names",
             "many-elements-in-frozenset", "many-elements-in-set", "many-keys-in-dict", "float-text-long-digits", "many-interned-strings"]


class C11:
    id = "C11"
    rule = ("inputs = (a) every prefix and every single-byte substitution of small valid seed files of every version "
            "(corpus files <= 600 B and fresh compiles by 2.7/3.6-3.13; thorough: all positions, quick: positions drawn by "
            "seed), (b) Hypothesis structural mutations of seeds (insert / delete / duplicate spans, splice two files, "
            "overwrite bytes, truncate), (c) adversarial marshal structure behind a valid header: counts up to 2^31-1 and "
            "negative, 10^4-10^5 one-byte elements, nesting depth up to 10^4 (quick) / 10^5 (thorough), references out of "
            "range and to reserved slots, NULLs, unknown type codes, garbage code fields, dropbox magic with garbage; "
            "oracle inside a worker process: load_module(path) returns a 7-tuple or raises ImportError - any other "
            "exception type (incl. SystemExit, RecursionError, MemoryError) or a dead interpreter is a violation; "
            "sys.addaudithook must see no exec/compile/non-stdlib import/open-for-write/remove/rename/mkdir/system/"
            "spawn/socket event during the call (events raised under traceback.print_exc are ignored); CPU time <= 2 s "
            "for inputs <= 64 KiB and <= 20 s above (re-measured twice), tracemalloc peak <= 64 MiB + 256 x len on a "
            "1-in-16 sample and on every adversarial input; non-trivial = input passes the magic check and reaches the "
            "unmarshaller; distinct = input bytes")
    assumptions = ["stderr output (traceback.print_exc, 'Unknown type') is allowed",
                   "load_module's >= 50-byte guard is part of its contract: shorter inputs are rejected before any parsing"]
    budgets = {"quick": {"shards": 14, "examples": 150, "seconds": 80},
               "thorough": {"shards": 16, "examples": 6000, "seconds": 2400}}
    minimise = False

    def setup(self, ctx):
        magics = magicreg.final_magics()
        self.magics = magics
        seeds = []
        labels = []
        for rel in pd.corpus_files():
            p = os.path.join(pd.CORPUS_DIR, rel)
            if os.path.getsize(p) <= 600:
                seeds.append(open(p, "rb").read())
                labels.append(rel)
        for v in ["2.7", "3.6", "3.7", "3.8", "3.9", "3.10", "3.11", "3.12", "3.13"]:
            r = ctx.pool.ref(v).call("compile", src=TINY, dis=False, filename="t.py")
            seeds.append(rw.unhx(r["header"]) + rw.unhx(r["payload"]))
            labels.append("compiled:" + v)
        self.seeds, self.labels = seeds, labels
        self.ready = set()
        x = rw.xd()
        self.all_magics = sorted(set(r[3] for r in magicreg.registry_rows()) | set(x.magics.magicint2version))

    def worker(self, ctx, host):
        w = ctx.pool.host(host)
        if (host, id(w.proc)) not in self.ready or w.proc is None or w.proc.poll() is not None:
            w.call("x_hostile_seeds", seeds=[rw.hx(s) for s in self.seeds])
            self.ready.add((host, id(w.proc)))
        return w

    def strategy(self, ctx):
        nseeds = len(self.seeds)
        edit = st.one_of(
            st.tuples(st.just("ins"), st.integers(0, 2000), st.binary(min_size=1, max_size=8).map(rw.hx)),
            st.tuples(st.just("del"), st.integers(0, 2000), st.integers(1, 40)),
            st.tuples(st.just("dup"), st.integers(0, 2000), st.integers(1, 16), st.integers(1, 50)),
            st.tuples(st.just("set"), st.integers(0, 2000), st.integers(0, 255)),
            st.tuples(st.just("splice"), st.integers(0, 500), st.integers(0, 2000), st.integers(0, 2000)),
            st.tuples(st.just("trunc"), st.integers(0, 2000)),
        ).map(list)
        big = [10 ** 4, 30000, 65000] if ctx.tier == "quick" else [10 ** 4, 65000, 10 ** 5, 3 * 10 ** 5]
        depth = [20, 48, 100, 999, 1001, 5000, 10 ** 4] if ctx.tier == "quick" else [30, 48, 60, 999, 1001, 10 ** 4, 10 ** 5]
        counts = [2 ** 31 - 1, 2 ** 31, 2 ** 32 - 1, 10 ** 6, 65536, 255, 0, 1]
        adv = st.tuples(st.sampled_from(ADV_NAMES), st.sampled_from(ADV_VERSIONS), st.sampled_from(counts),
                        st.one_of(st.integers(0, 40), st.sampled_from(big), st.sampled_from(depth)),
                        st.sampled_from(HOSTS if ctx.tier == "thorough" else ["3.12", "3.12", "3.9"])).map(
            lambda p: {"t": "adv", "name": p[0], "v": p[1], "count": p[2], "n": p[3] if p[0] not in (
                "deep-nesting", "deep-nesting-lists", "deep-nesting-dicts") else min(p[3], 10 ** 5), "host": p[4]})
        mut = st.tuples(st.integers(0, nseeds - 1), st.lists(edit, min_size=1, max_size=5),
                        st.sampled_from(["3.12", "3.12", "3.8", "3.13"])).map(
            lambda p: {"t": "edits", "seed": p[0], "edits": p[1], "host": p[2]})
        raw = st.binary(min_size=50, max_size=200).map(lambda b: {"t": "raw", "hex": rw.hx(b), "host": "3.12"})
        # every magic CPython's registry knows (final and interim) x odd bytes 3-4 x the body of some seed
        magic = st.tuples(st.sampled_from(self.all_magics), st.sampled_from(["0d0a", "0d0a", "240d", "0a0d", "0000", "0d0d", "ffff", "9900"]),
                          st.integers(0, nseeds - 1)).map(lambda p: {"t": "magic", "magic": p[0], "tail": p[1], "seed": p[2], "host": "3.12"})
        return st.one_of(mut, mut, adv, raw, magic)

    def fixed_cases(self, ctx):
        # containers of very many DISTINCT elements (linear to build; a reader that copies per element is quadratic)
        for name in ("many-elements-in-frozenset", "many-elements-in-set", "many-keys-in-dict"):
            for v in ("3.8", "2.7"):
                yield {"t": "adv", "name": name, "v": v, "count": 0, "n": 150000 if ctx.tier == "quick" else 400000, "host": "3.12"}
        for cnt in range(4):
            for v in ("2.7", "2.5", "3.8"):
                yield {"t": "adv", "name": "float-text-long-digits", "v": v, "count": cnt, "n": 60, "host": "3.12"}
        for v in ("2.7", "2.5"):
            yield {"t": "adv", "name": "many-interned-strings", "v": v, "count": 0, "n": 100000, "host": "3.12"}
        # correctly encrypted Dropbox files around drawn code bytes / hostile constants: every inner variant, several code strings
        for n in range(0, 28):
            yield {"t": "adv", "name": "dropbox-encrypted", "v": "2.5", "count": [5, 0x7fffffff, 0, -3 % (2 ** 32)][n % 4], "n": n, "host": "3.12"}
        # systematic: prefixes and single-byte substitutions
        for i, s in enumerate(self.seeds):
            yield {"t": "prefix", "seed": i, "lo": 0, "hi": len(s) + 1, "host": "3.12"}
            if ctx.tier == "thorough":
                for pos in range(len(s)):
                    yield {"t": "subst", "seed": i, "pos": pos, "host": "3.12"}
            else:
                # 6 positions per seed, chosen by the seed value
                for j in range(6):
                    pos = (ctx.seed * 7919 + i * 104729 + j * 1299709) % len(s)
                    yield {"t": "subst", "seed": i, "pos": pos, "host": "3.12"}

    def judge(self, case, ctx):
        res = Result()
        t = case.get("t")
        host = case.get("host", "3.12")
        if host not in HOSTS:
            res.reject = "malformed-case"
            return res
        mem = False
        if t == "prefix" and 0 <= case.get("seed", -1) < len(self.seeds):
            items = [{"seed": case["seed"], "prefix": [case["lo"], case["hi"]]}]
            label = "prefixes of %s" % self.labels[case["seed"]]
        elif t == "subst" and 0 <= case.get("seed", -1) < len(self.seeds):
            items = [{"seed": case["seed"], "subst": [case["pos"], 0, 256]}]
            label = "byte %d of %s" % (case["pos"], self.labels[case["seed"]])
        elif t == "edits" and 0 <= case.get("seed", -1) < len(self.seeds):
            items = [{"seed": case["seed"], "edits": case["edits"]}]
            label = "%d edits of %s" % (len(case["edits"]), self.labels[case["seed"]])
        elif t == "adv" and case.get("name") in ADV_NAMES and case.get("v") in ADV_VERSIONS:
            payload = adversarial(case["name"], case)
            if payload.startswith(b"DROPBOX"):
                data = gdb.dropbox_pyc(payload[7:])
                payload = None
            if payload is None:
                pass
            elif case["v"] == "2.5" or case["name"] == "dropbox":
                hdr = struct.pack("<H", 62135) + b"\r\n" + struct.pack("<I", 0)        # (a 2.5 header: magic + timestamp)
            else:
                hdr = header_for(self.magics, case["v"])
            if payload is not None:
                data = hdr + payload
            if len(data) < 60:
                data += b"\0" * (60 - len(data))
            items = [{"hex": rw.hx(data)}]
            label = "adversarial %s (%s, count=%s, n=%s)" % (case["name"], case["v"], case.get("count"), case.get("n"))
            mem = True
        elif t == "magic" and isinstance(case.get("magic"), int) and 0 <= case.get("seed", -1) < len(self.seeds):
            body = self.seeds[case["seed"]][4:]
            data = struct.pack("<H", case["magic"] & 0xFFFF) + rw.unhx(case["tail"])[:2] + body
            if len(data) < 60:
                data += b"\0" * (60 - len(data))
            items = [{"hex": rw.hx(data)}]
            label = "magic %d with bytes 3-4 = %s over %s" % (case["magic"], case["tail"], self.labels[case["seed"]])
        elif t == "raw" and isinstance(case.get("hex"), str):
            items = [{"hex": case["hex"]}]
            label = "raw bytes"
        else:
            res.reject = "malformed-case"
            return res
        try:
            r = self.worker(ctx, host).call("x_hostile", items=items, mem=mem)
        except WorkerDied:
            # find the concrete input(s) that kill the interpreter: one process per input
            rw._HOSTILE["seeds"] = self.seeds
            host_magic = rw.unhx(ctx.pool.ref(host).call("magic")["magic"])
            r = {"n": 0, "reached": 0, "kinds": {}, "bad": []}
            for spec in items:
                for cspec, data in rw._expand_hostile(spec):
                    r["n"] += 1
                    try:
                        one = self.worker(ctx, host).call("x_hostile", items=[{"hex": rw.hx(data)}], mem=False)
                        r["reached"] += one["reached"]
                        for k, v in one["kinds"].items():
                            r["kinds"][k] = r["kinds"].get(k, 0) + v
                        r["bad"].extend(one["bad"])
                    except WorkerDied as e:
                        native = data[:4] == host_magic
                        r["kinds"]["interpreter-died"] = r["kinds"].get("interpreter-died", 0) + 1
                        res.fail("C11|interpreter-died|%s" % ("native-marshal-fast-path" if native else "portable-path"),
                                 "%s: the %s interpreter running load_module died (%s); input %d bytes, hex %s" % (
                                     label, host, str(e)[-40:], len(data), rw.hx(data)[:2000]), {"input": {"hex": rw.hx(data)}})
        res.evals = max(1, r["n"])
        res.nt_keys = [[t, case.get("seed"), case.get("pos"), case.get("name"), case.get("count"), case.get("n"),
                        rw.hx(repr(case.get("edits")).encode())[:40], k] for k in range(min(r["reached"], 300))]
        res.classes = ["kind:%s" % t, "host:" + host] + ["outcome:%s" % k for k in r["kinds"]] + (
            ["adv:" + case["name"]] if t == "adv" else [])
        res.sample = {"input": label, "inputs_tried": r["n"], "reached_unmarshaller": r["reached"], "outcomes": r["kinds"]}
        for b in r["bad"]:
            for kind, what, detail in b["problems"]:
                if kind == "interpreter-died":
                    sig = "C11|interpreter-died|%s" % ("native-marshal-fast-path" if b.get("native") else "portable-path")
                elif kind == "exception":
                    sig = "C11|exception|%s|%s" % (what, xdis_frame(detail))
                elif kind == "audit":
                    sig = "C11|audit|%s" % what.split(":")[0]
                elif b.get("native"):
                    sig = "C11|%s|native-marshal-fast-path" % kind
                else:
                    sig = "C11|%s|%s" % (kind, case.get("name") or t)
                res.fail(sig, "%s: %s %s (input %d bytes%s)" % (label, kind, what, b["len"],
                                                               ", hex " + b["spec"]["hex"][:120] if "hex" in b["spec"] else ""),
                         {"input": b["spec"], "detail": detail[-600:]})
        return res


    def finish(self, ctx, runner):
        """coverage-guided campaign (atheris/libFuzzer) on shard 0; every artifact it leaves is judged by the same
        oracle as the generated inputs"""
        if ctx.shard != 0:
            return
        import glob
        import re
        import subprocess
        import sys
        here = os.path.dirname(os.path.dirname(os.path.abspath(__file__)))
        script = os.path.join(here, "fuzz_c11.py")
        try:
            sys.path.insert(0, os.path.join(os.path.dirname(here), ".deps"))
            import atheris  # noqa
        except Exception as e:
            ctx.extra["atheris"] = "not available (%s): Hypothesis + systematic engines only" % type(e).__name__
            return
        finally:
            sys.path.pop(0)
        secs = 12 if ctx.tier == "quick" else 420
        total = {"runs": 0, "artifacts": 0, "campaigns": []}
        for label, with_corpus in (("seeded", True), ("empty-corpus", False)):
            corpus = os.path.join(ctx.scratch, "corpus-" + label)
            art = os.path.join(ctx.scratch, "art-" + label)
            os.makedirs(corpus)
            os.makedirs(art)
            if with_corpus:
                for i, sd in enumerate(self.seeds):
                    with open(os.path.join(corpus, "seed%03d" % i), "wb") as f:
                        f.write(sd)
            flags = ["-max_len=4096", "-timeout=10", "-max_total_time=%d" % (secs if with_corpus else max(6, secs // 3)),
                     "-print_final_stats=1", "-seed=%d" % (ctx.seed % (2 ** 31) or 1), "-rss_limit_mb=3000"]
            if ctx.tier == "thorough":
                flags += ["-fork=12", "-ignore_crashes=1", "-ignore_timeouts=1", "-ignore_ooms=1"]
            env = dict(os.environ)
            env["PYTHONHASHSEED"] = "0"
            env["VF_SCRATCH"] = ctx.scratch
            try:
                p = subprocess.run([script, corpus, art] + flags, cwd=ctx.scratch, env=env, stdout=subprocess.PIPE,
                                   stderr=subprocess.STDOUT, timeout=secs * 3 + 120)
                out = p.stdout.decode("utf-8", "replace")
            except subprocess.TimeoutExpired as e:
                out = (e.stdout or b"").decode("utf-8", "replace")
            m = re.findall(r"stat::number_of_executed_units:\s*(\d+)", out)
            runs = sum(int(v) for v in m) if m else max([int(v) for v in re.findall(r"^#(\d+)", out, re.M)] or [0])
            cov = re.findall(r"cov: (\d+)", out)
            arts = sorted(glob.glob(os.path.join(art, "*")))
            total["runs"] += runs
            total["artifacts"] += len(arts)
            total["campaigns"].append({"corpus": label, "executions": runs, "coverage_edges": int(cov[-1]) if cov else None,
                                       "artifacts": len(arts), "seconds": secs if with_corpus else max(6, secs // 3)})
            for a in arts[:40]:
                data = open(a, "rb").read()
                if len(data) < 50:
                    data += b"\0" * (50 - len(data))
                runner.handle({"t": "raw", "hex": rw.hx(data), "host": "3.12"}, "atheris:" + os.path.basename(a)[:20])
        ctx.extra["atheris"] = total


PROP = C11()
