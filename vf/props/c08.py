"""C08 - magic-number knowledge is coherent and agrees with CPython's registry."""
import io
import re
import struct

from hypothesis import strategies as st

from vf import magicreg
from vf import refworker as rw
from vf.pool import ALL_VERSIONS, HOSTS
from vf.run import Result

CHUNK = 2048


def release_magic(rows, major, minor, patch):
    """Registry magic of final release major.minor.patch: last row (file order) of the series
    that is a pre-release row or a '.N' row with N <= patch."""
    best = None
    for (mj, mn, suf, magic, _src) in rows:
        if (mj, mn) != (major, minor):
            continue
        if suf.startswith("."):
            m = re.match(r"^\.(\d+)", suf)
            if m and int(m.group(1)) > patch:
                continue
        best = magic
    return best


class C08:
    id = "C08"
    rule = ("enumerated: all 65536 integers (magic2int(int2magic(i)) == i and the inverse on both 4-byte shapes xdis "
            "emits); every row of CPython's own magic registry (parsed from importlib/_bootstrap_external.py of every "
            "installed 3.x) -> magic_int2tuple()[:2] == the row's release; every magic xdis knows and load_module "
            "accepts -> version tuple + get_opcode succeed; every plain release name in the tables -> "
            "sysinfo2magic == registry magic of that release; every installed interpreter -> sysinfo2magic run under "
            "it == its MAGIC_NUMBER; Hypothesis adds random 4-byte strings and version_info tuples; non-trivial = a "
            "table row / release / interpreter (not a bare integer); distinct = the row")
    assumptions = ["CPython's registry comment block is ground truth for release -> magic",
                   "rows appear in chronological order inside the registry"]
    exhaustive = {"quick": True, "thorough": True}
    budgets = {"quick": {"shards": 8, "examples": 1500, "seconds": 60},
               "thorough": {"shards": 16, "examples": 4000, "seconds": 300}}
    minimise = False

    def setup(self, ctx):
        self.rows = magicreg.registry_rows()
        # file order matters for release_magic: re-read newest registry in order
        self.ordered = ordered_rows()

    def strategy(self, ctx):
        x = rw.xd()
        names = sorted(n for n in x.magics.magics if re.match(r"^\d\.\d+(\.\d+)?$", n))
        return st.one_of(
            st.binary(min_size=4, max_size=4).map(lambda b: {"t": "bytes4", "hex": rw.hx(b)}),
            st.integers(0, 65535).map(lambda i: {"t": "int", "i": i}),
            st.sampled_from(names).map(lambda n: {"t": "release", "name": n}),
        )

    def fixed_cases(self, ctx):
        for lo in range(0, 65536, CHUNK):
            yield {"t": "range", "lo": lo}
        for r in self.rows:
            yield {"t": "registry", "row": list(r[:4])}
        x = rw.xd()
        for m in sorted(x.magics.magicint2version):
            yield {"t": "known", "magic": m}
        for n in sorted(x.magics.magics):
            yield {"t": "name", "name": n}
        for v in ALL_VERSIONS:
            yield {"t": "interp", "v": v}

    def judge(self, case, ctx):
        res = Result()
        x = rw.xd()
        mg = x.magics
        t = case.get("t")
        res.classes = ["kind:" + str(t)]
        if t == "range":
            lo = case["lo"]
            res.evals = CHUNK
            for i in range(lo, lo + CHUNK):
                if not self.roundtrip(mg, i, res):
                    break
            res.sample = {"kind": "int round-trip chunk", "lo": lo, "n": CHUNK}
        elif t == "int":
            self.roundtrip(mg, case["i"], res)
        elif t == "bytes4":
            b = rw.unhx(case["hex"])
            # the two shapes xdis emits: <H + CR LF, and (39170/39171) <H + 0x99 0x00
            for m in (b[:2] + b"\r\n",):
                try:
                    back = mg.int2magic(mg.magic2int(m))
                except Exception as e:
                    res.fail("C08|bytes-roundtrip-raised|%s" % type(e).__name__, "int2magic(magic2int(%r)) raised %s" % (m, e))
                    continue
                i = struct.unpack("<H", m[:2])[0]
                exp = m if i not in (39170, 39171) else m[:2] + b"\x99\x00"
                if back != exp:
                    res.fail("C08|bytes-roundtrip", "int2magic(magic2int(%r)) = %r" % (m, back))
        elif t == "registry":
            major, minor, suf, magic = case["row"]
            res.nontrivial = True
            res.key = case["row"]
            res.sample = {"kind": "registry row", "release": "%d.%d%s" % (major, minor, suf), "magic": magic}
            if magic not in mg.magicint2version:
                res.fail("C08|registry-magic-unknown|%d" % magic,
                         "CPython registry: Python %d.%d%s writes magic %d, which xdis does not know" % (major, minor, suf, magic))
            else:
                try:
                    tup = mg.magic_int2tuple(magic)
                except Exception as e:
                    res.fail("C08|registry-magic-no-tuple|%d" % magic, "magic_int2tuple(%d) raised %s: %s" % (magic, type(e).__name__, e))
                    return res
                if tuple(tup[:2]) != (major, minor):
                    res.fail("C08|registry-magic-wrong-version|%d" % magic,
                             "magic %d is Python %d.%d%s in CPython's registry, xdis says %s (%s)" % (
                                 magic, major, minor, suf, tup, mg.magicint2version[magic]))
        elif t == "known":
            magic = case["magic"]
            res.nontrivial = True
            res.key = ["known", magic]
            res.sample = {"kind": "xdis table magic", "magic": magic, "version": mg.magicint2version.get(magic)}
            if magic not in mg.magicint2version:
                res.reject = "not-in-table"
                return res
            # does load_module accept a file with this magic?
            data = mg.int2magic(magic) + b"\0" * 60
            # a file's name never changes which Python version its magic number stands for
            base = None
            for fname in ("m%d.pyc" % magic, "m.cpython-39.pyc", "m.pypy38.pyc", "m.pypy39.pyc", "m.pypy310.pyc", "m.pypy-73.pyc",
                          "pypy38-compat/m.cpython-38.pyc", "site-packages/pypy39/m.pyc"):
                try:
                    t_ = x.load.load_module_from_file_object(io.BytesIO(data), filename=fname, get_code=False)
                    o_ = x.disasm.get_opcode(t_[0], t_[4])
                    cur = (tuple(t_[0][:2]), tuple(o_.version_tuple[:2]), bool(t_[4]) if not fname.endswith(("pypy38.pyc", "pypy39.pyc", "pypy310.pyc")) else "by-name")
                except ImportError:
                    cur = "ImportError"
                except Exception as e:
                    cur = "raised " + type(e).__name__
                    if magic == 62135:
                        cur = "dropbox"
                res.evals += 1
                if base is None:
                    base = cur
                elif (cur[:2] != base[:2] if isinstance(cur, tuple) and isinstance(base, tuple) else cur != base) or (
                        isinstance(cur, tuple) and (cur[0] != cur[1] or (cur[2] != "by-name" and cur[2] != base[2]))):
                    res.fail("C08|version-depends-on-file-name", "magic %d: named m%d.pyc -> %s, named %s -> %s (version, opcode table version)" % (
                        magic, magic, base, fname, cur))
                    break
            try:
                tup = x.load.load_module_from_file_object(io.BytesIO(data), filename="m%d.pyc" % magic, get_code=False)
            except ImportError:
                res.classes.append("rejected-by-design")
                return res
            except Exception as e:
                if magic == 62135:
                    # dropbox files are decrypted before any header is returned; garbage payload is C11's subject
                    res.classes.append("dropbox-decrypt-path")
                    return res
                res.fail("C08|accepted-magic-header-raised|%s" % type(e).__name__, "magic %d: header parse raised %s: %s" % (magic, type(e).__name__, e))
                return res
            res.classes.append("accepted")
            version, is_pypy = tup[0], tup[4]
            try:
                vt2 = mg.magic_int2tuple(magic)
                opc = x.disasm.get_opcode(version, is_pypy)
                assert opc is not None and hasattr(opc, "opname")
                # ... a table that the disassembler can actually use on a code object of that version
                vt3 = tuple(version[:3]) if len(version) >= 3 else tuple(version[:2]) + (0,)
                rv = opc.opmap.get("RETURN_VALUE", 83)
                one = bytes([rv, 0]) if vt3 >= (3, 6) else bytes([rv])
                kw = dict(co_argcount=0, co_nlocals=0, co_stacksize=1, co_flags=0, co_code=one, co_consts=(None,), co_names=(),
                          co_varnames=(), co_filename="f.py", co_name="n", co_firstlineno=1, co_lnotab=b"", co_freevars=(),
                          co_cellvars=(), version_triple=tuple(version))
                if vt3 >= (3, 0):
                    kw["co_kwonlyargcount"] = 0
                if vt3 >= (3, 8):
                    kw["co_posonlyargcount"] = 0
                if vt3 >= (3, 11):
                    kw["co_qualname"] = "n"
                    kw["co_exceptiontable"] = b""
                co_min = x.codetype.to_portable(**kw)
                list(x.bytecode.Bytecode(co_min, opc))
                x.bytecode.Bytecode(co_min, opc).dis()
            except Exception as e:
                res.fail("C08|accepted-magic-no-opcode-table|%d" % magic,
                         "magic %d (%s) loads, but get_opcode(%s, %s) fails: %s: %s" % (
                             magic, mg.magicint2version[magic], version, is_pypy, type(e).__name__, e))
        elif t == "name":
            name = case["name"]
            res.nontrivial = True
            res.key = ["name", name]
            try:
                m = mg.magics[name]
                assert m in mg.by_magic and m in mg.versions
                mg.py_str2tuple(name)
                mg.magic_int2tuple(mg.magic2int(m))
            except Exception as e:
                res.fail("C08|name-unresolvable|%s" % name, "release name %r does not resolve: %s: %s" % (name, type(e).__name__, e))
        elif t == "release":
            name = case["name"]
            m = re.match(r"^(\d)\.(\d+)(?:\.(\d+))?$", name)
            if not m or name not in mg.magics:
                res.reject = "not-a-plain-release"
                return res
            major, minor, patch = int(m.group(1)), int(m.group(2)), int(m.group(3) or 0)
            exp = release_magic(self.ordered, major, minor, patch)
            res.nontrivial = True
            res.key = ["release", name]
            res.sample = {"kind": "release name", "name": name, "registry_magic": exp}
            if exp is None:
                res.reject = "release-older-than-registry"
                return res
            vi = (major, minor, patch, "final", 0)
            try:
                got = mg.sysinfo2magic(vi)
            except Exception as e:
                if m.group(3) is None:
                    res.reject = "two-component-name"
                    return res
                res.fail("C08|sysinfo2magic-raised|%s" % name, "sysinfo2magic(%r) raised %s: %s" % (vi, type(e).__name__, e))
                return res
            if mg.magic2int(got) != exp:
                res.fail("C08|release-magic|%d.%d" % (major, minor),
                         "Python %s writes magic %d (CPython registry); sysinfo2magic gives %d" % (name, exp, mg.magic2int(got)))
            # the bytecode magic is frozen before the first release candidate: X.Y.Zrc<n> writes what X.Y.Z final writes
            for serial in (1, 2, 3):
                vi = (major, minor, patch, "candidate", serial)
                try:
                    got = mg.magic2int(mg.sysinfo2magic(vi))
                except Exception as e:
                    res.fail("C08|sysinfo2magic-raised|candidate", "sysinfo2magic(%r) raised %s: %s" % (vi, type(e).__name__, e))
                    break
                res.evals += 1
                if got != exp:
                    res.fail("C08|release-magic|candidate", "Python %src%d writes magic %d like %s final (CPython registry); "
                             "sysinfo2magic(%r) gives %d" % (name, serial, exp, name, vi, got))
                    break
        elif t == "interp":
            v = case["v"]
            info = ctx.pool.ref(v).call("magic")
            real = rw.unhx(info["magic"])
            res.nontrivial = True
            res.key = ["interp", v]
            res.sample = {"kind": "installed interpreter", "version": info["version_info"], "magic": mg.magic2int(real)}
            vi = tuple(info["version_info"])
            if v in HOSTS:
                r = ctx.pool.host(v).call("x_sysinfo2magic")
                got = rw.unhx(r["magic"])
                if got != real:
                    res.fail("C08|host-magic|%s" % v, "under %s sysinfo2magic() = %r, interpreter writes %r" % (v, got, real))
                if r["python_magic_int"] != mg.magic2int(real):
                    res.fail("C08|host-PYTHON_MAGIC_INT|%s" % v, "PYTHON_MAGIC_INT %s != %s" % (r["python_magic_int"], mg.magic2int(real)))
            try:
                got = mg.sysinfo2magic(vi)
            except Exception as e:
                res.fail("C08|sysinfo2magic-raised|%s" % v, "sysinfo2magic(%r) raised %s" % (vi, e))
                return res
            if got != real:
                res.fail("C08|interp-magic|%s" % v, "sysinfo2magic(%r) = %r, interpreter writes %r" % (vi, got, real))
            tup = mg.magic_int2tuple(mg.magic2int(real))
            if tuple(tup[:2]) != tuple(vi[:2]):
                res.fail("C08|interp-tuple|%s" % v, "magic of %s maps to %s" % (v, tup))
        else:
            res.reject = "malformed-case"
        return res

    def roundtrip(self, mg, i, res):
        try:
            m = mg.int2magic(i)
            back = mg.magic2int(m)
        except Exception as e:
            res.fail("C08|int-roundtrip-raised|%s" % type(e).__name__, "magic2int(int2magic(%d)) raised %s" % (i, e))
            return False
        if back != i or len(m) != 4:
            res.fail("C08|int-roundtrip", "magic2int(int2magic(%d)) = %r via %r" % (i, back, m))
            return False
        try:
            if mg.int2magic(mg.magic2int(m)) != m:
                res.fail("C08|magic-roundtrip", "int2magic(magic2int(%r)) != itself" % (m,))
                return False
        except Exception as e:
            res.fail("C08|magic-roundtrip-raised|%s" % type(e).__name__, "int2magic(magic2int(%r)) raised %s" % (m, e))
            return False
        return True


def ordered_rows():
    """registry rows of the newest installed interpreter, in file order, completed by rows that
    only older registries list"""
    import os
    from vf.pool import interpreters
    out = []
    seen = set()
    items = sorted(interpreters().items(), key=lambda kv: tuple(int(p) for p in kv[0].split(".")), reverse=True)
    for v, exe in items:
        if v.startswith("2."):
            continue
        root = os.path.dirname(os.path.dirname(exe))
        p = os.path.join(root, "lib", "python" + v, "importlib", "_bootstrap_external.py")
        if not os.path.exists(p):
            continue
        for line in open(p, encoding="utf-8"):
            if not line.startswith("#"):
                if "MAGIC_NUMBER" in line:
                    break
                continue
            m = magicreg._ROW.match(line)
            if m:
                key = (int(m.group(1)), int(m.group(2)), m.group(3) or "", int(m.group(4)))
                if key not in seen:
                    seen.add(key)
                    out.append(key + (v,))
        break   # newest registry is complete for every older series
    return out


PROP = C08()
