"""C10 - every marshal encoding of a constant decodes to the same value."""
import io
import traceback

from hypothesis import strategies as st

from vf import canon as cn
from vf import refworker as rw
from vf.gen import values as gv
from vf.magicreg import final_magics
from vf.pool import HarnessError
from vf.ref import refmarshal as rm
from vf.run import Result

REAL_TARGETS = ["2.7", "3.6", "3.7", "3.8", "3.9", "3.10", "3.11", "3.12", "3.13"]
# versions with no interpreter -> (cousin interpreter whose code layout is identical)
COUSIN = {"2.3": "2.7", "2.4": "2.7", "2.5": "2.7", "2.6": "2.7",
          "3.0": "3.7", "3.1": "3.7", "3.2": "3.7", "3.3": "3.7", "3.4": "3.7", "3.5": "3.7",
          "2.1": "2.7", "2.2": "2.7", "2.0": "2.7"}
# PyPy writes the marshal format of the CPython level it implements under its own magic number (PyPy's
# pypy/interpreter/pycode.py; the numbers are also the ones of the sample files under test/bytecode_pypy*)
PYPY = {"pypy2.7": (62218, "2.7"), "pypy3.2": (3187, "3.2"), "pypy3.3": (64, "3.3"), "pypy3.5": (112, "3.5"), "pypy3.6": (192, "3.6"), "pypy3.7": (240, "3.7"),
        "pypy3.8": (256, "3.8"), "pypy3.9": (336, "3.9"), "pypy3.10": (384, "3.10")}
REF_TARGETS = REAL_TARGETS + sorted(COUSIN) + sorted(PYPY)


def xdis_frame(tb_text):
    """innermost xdis frame 'file:function' of a formatted traceback"""
    last = "?"
    for line in tb_text.splitlines():
        line = line.strip()
        if line.startswith("File ") and "/xdis/" in line:
            try:
                fn = line.split("/xdis/")[1].split('"')[0]
                func = line.rsplit(" in ", 1)[1]
                last = "%s:%s" % (fn, func)
            except Exception:
                pass
    return last


class C10:
    id = "C10"
    rule = ("case = (target version, encoder, marshal format version, value tree with sharing plan, "
            "encoder choice stream); real encoder = that interpreter's marshal.dumps(code with the values "
            "as co_consts, k); ref encoder = refmarshal with every format choice drawn (int i/I/l, float f/g, "
            "complex x/y, text u/t/a/A/z/Z, py2 s/t/R, tuple )/(, FLAG_REF on any kind + later 'r'); oracle = "
            "producing (or layout-cousin) interpreter's marshal.loads of the same bytes; non-trivial = stream "
            "has a FLAG_REF+r (or t+R) pair, a container >= 256, a dict, or non-ASCII text; distinct = payload bytes")
    assumptions = [
        "CPython's marshal.loads is ground truth for the bytes it accepts",
        "2.1-2.6 / 3.0-3.5 targets: oracle is the 2.7 / 3.7 interpreter loading the same stream re-laid-out "
        "for its (identical for 2.3-2.7 and 3.0-3.7) code layout",
        "py2 int vs long and str-that-is-UTF-8 vs bytes are the same kind (xdis's documented mapping)",
    ]
    budgets = {"quick": {"shards": 12, "examples": 350, "seconds": 75},
               "thorough": {"shards": 16, "examples": 12000, "seconds": 900}}

    def setup(self, ctx):
        self.magics = final_magics()

    def magic_for(self, target):
        if target in PYPY:
            return PYPY[target][0]
        return self.magics[rm.vtuple(target)]

    def strata(self, ctx):
        out = []
        for target in REF_TARGETS:
            py2 = target.startswith("2.") or target == "pypy2.7"
            if target in REAL_TARGETS:
                out.append(["real:" + target, st.tuples(st.integers(0, 2 if target == "2.7" else 4), gv.shared_values(py2)).map(
                    lambda p, target=target: {"target": target, "enc": "real", "mver": p[0], "values": p[1], "choices": []}), 2])
            out.append(["ref:" + target, st.tuples(gv.shared_values(py2), st.lists(st.integers(0, 255), max_size=40)).map(
                lambda p, target=target: {"target": target, "enc": "ref", "mver": None, "values": p[0], "choices": p[1]}),
                3 if target in REAL_TARGETS else 2])
        return out

    def strategy(self, ctx):
        return st.one_of([s_ for _, s_, _ in self.strata(ctx)])

    def fixed_cases(self, ctx):
        # Python 2 byte strings that LOOK like UTF-8 but are not (encoded surrogates, beyond U+10FFFF, overlong forms)
        odd = [["y", "eda080"], ["y", "61edb0807a"], ["y", "f4908080"], ["y", "c080"], ["y", "e08080"], ["y", "edafbfedbfbf"]]
        for target in ("2.7", "2.5", "2.3", "2.1", "pypy2.7"):
            for ch in ([], [1, 1, 1, 1, 1, 1, 1, 1]):
                yield {"target": target, "enc": "ref", "mver": None, "values": odd, "choices": ch}
        yield {"target": "2.7", "enc": "real", "mver": 2, "values": odd, "choices": []}
        # Python 2: a nested code object first (its empty line table and its names get interned 't' slots), then constants
        # equal to those strings, written as 'R' references to the slots
        again = [["y", ""], ["T", [["y", ""], ["y", "61"], ["y", "696e6e6572"]]], ["y", "3c67656e3e"], ["y", ""]]
        for target in ("2.7", "2.6", "2.5", "2.4", "pypy2.7"):
            for c0 in (5, 9, 1):
                yield {"target": target, "enc": "ref", "mver": None, "values": again, "choices": [c0]}
        # byte strings around the sizes at which readers switch to chunked reads (1 MiB and its multiples)
        for target in ("2.7", "3.9", "3.3"):
            for n in ((1 << 20) - 1, 1 << 20, (1 << 20) + 5, (2 << 20) + 1, (3 << 20) - 7):
                yield {"target": target, "enc": "ref", "mver": None, "values": [], "bigbytes": n, "choices": []}

    def judge(self, case, ctx):
        res = Result()
        target, enc = case["target"], case["enc"]
        if enc not in ("real", "ref") or target not in REF_TARGETS:
            res.reject = "malformed-case"
            return res
        case = dict(case)
        case["values"] = [gv.expand(v) for v in case["values"]]
        if case.get("bigbytes"):
            n = int(case["bigbytes"])
            if not (0 < n <= (4 << 20)):
                res.reject = "malformed-case"
                return res
            blob = (b"0123456789abcdef" * (n // 16 + 1))[:n]
            case["values"] = [["y", rw.hx(blob)], ["i", "77"]]
        wire = target                       # whose magic number the bytes are read under
        if target in PYPY:
            if enc != "ref":
                res.reject = "malformed-case"
                return res
            target = PYPY[target][1]
        vt = rm.vtuple(target)
        py2 = vt < (3, 0)
        features = set()
        has_inner = False
        if enc == "real":
            r = ctx.pool.ref(target).call("dumps_code", values=case["values"], mver=case["mver"])
            if "reject" in r:
                res.reject = "real-dumps:" + r["reject"].split(":")[0]
                return res
            payload = rw.unhx(r["payload"])
            expected = r["consts"]
            kinds = set()
            for v in case["values"]:
                gv.kinds_in(v, kinds)
            if b"r" in payload and case["mver"] >= 3 and any(c > 1 for c in _shares(case["values"]).values()):
                features.add("backref")
            features |= kinds
        else:
            consts = ["T", case["values"]]
            if case["choices"] and case["choices"][0] % 2:
                # ... preceded by a nested code object (its empty line table and its names are written before the values:
                # Python 2 interns them, and later equal strings become 'R' references to those slots)
                inner = rm.template_code_tree(target, ["T", [["N"]]], name="inner", varnames=["a"])
                consts = ["T", [inner] + case["values"]]
            # distinct values in every integer field of the code header, so that a swapped / mis-sized field shows
            k = sum(case["choices"][:3]) % 50 if case["choices"] else 0
            nloc = 7 + k % 5
            varnames = ["v%d" % i for i in range(nloc)]
            extra = {"co_argcount": ["i", str(3 + k % 2)], "co_stacksize": ["i", str(11 + k)],
                     "co_flags": ["i", str(0x43 + 0x100 * (k % 3))], "co_firstlineno": ["i", str(1000 + k * 13)]}
            if vt < (2, 3) and k % 3 == 0:
                # 16-bit header fields before 2.3 are signed: a code object on line 40000 reads back as line -25536
                extra["co_firstlineno"] = ["i", str(-25536 + k)]
            if vt >= (3, 0):
                extra["co_kwonlyargcount"] = ["i", str(2 - k % 2)]
            if vt >= (3, 8):
                extra["co_posonlyargcount"] = ["i", str(1 + k % 2)]
            tree = rm.template_code_tree(target, consts, varnames=varnames, extra=extra)
            extra_cmp = dict(extra)
            extra_cmp["co_nlocals"] = ["i", str(nloc)]
            try:
                payload, feats = rm.encode(tree, target, case["choices"])
            except rm.Unencodable as e:
                res.reject = "unencodable:%s" % e
                return res
            features |= set(f.split(":")[0] if f.startswith("text:") else f for f in feats)
            for v in case["values"]:
                features |= gv.kinds_in(v)
            oracle_v = COUSIN.get(target, target)
            if oracle_v != target:
                tree2 = rm.template_code_tree(oracle_v, consts, varnames=varnames, extra=extra)
                payload2, _ = rm.encode(tree2, target, case["choices"], layout_version=oracle_v)
                # the stream must differ only in the fixed-width header ints
            else:
                payload2 = payload
            r = ctx.pool.ref(oracle_v).call("loads", payload=rw.hx(payload2))
            if "reject" in r:
                res.reject = "ref-stream-rejected-by-cpython"
                return res
            if r["tree"][0] != "C":
                raise HarnessError("refmarshal stream did not load as code: %r" % (r["tree"][:1],))
            expected = r["tree"][1]["co_consts"]
            expected_fields = dict((f, v) for f, v in r["tree"][1].items() if f in extra_cmp)
            intended = rm.strip_sharing(consts)
            kinds = set()
            for v in case["values"]:
                gv.kinds_in(v, kinds)
            has_inner = bool(consts[1]) and consts[1][0][0] == "C"
            chk_exp, chk_int = (expected, intended) if not has_inner else (["T", expected[1][1:]], ["T", intended[1][1:]])
            if not (kinds & {"S", "Z", "D"}) and _nolong(chk_exp) != chk_int and not (py2 and "E" in kinds):
                raise HarnessError("refmarshal self-check: CPython %s loaded %s, intended %s" % (
                    oracle_v, cn.summary(expected, 200), cn.summary(intended, 200)))
            ctx.extra["oracle_selfchecks"] = ctx.extra.get("oracle_selfchecks", 0) + 1
            if py2 and _nodes(expected) != _nodes(intended):
                # Python 2 equates u"" and "", 1 and 1L ...: CPython collapsed set elements / dict keys
                # that stay distinct for any Python 3 host - no real writer emits such a set
                res.reject = "py2-stream-with-duplicate-set-elements"
                return res

        # ---- xdis side
        x = rw.xd()
        fp = io.BytesIO(payload)
        sigbase = "C10|%s" % ("py2" if py2 else "py3")
        got_fields = None
        try:
            co = x.unmarshal.load_code(fp, self.magic_for(wire))
            got = rw.xcanon(co.co_consts, py2)
            consumed = fp.tell()
            if enc == "ref":
                got_fields = dict((f, rw.xcanon(getattr(co, f, None), py2)) for f in expected_fields)
        except Exception as e:
            tb = traceback.format_exc()
            res.fail("%s|exc|%s|%s" % (sigbase, type(e).__name__, xdis_frame(tb)),
                     "load_code raised %s: %s" % (type(e).__name__, e), {"tb": tb[-1200:]})
            got = None
        if got is not None:
            if enc == "ref" and has_inner and got[0] == "T" and got[1] and expected[1]:
                # (the nested code object is there for what it does to the reader's tables; code objects are C01's subject)
                expected, got = ["T", expected[1][1:]], ["T", got[1][1:]]
            if (enc == "real" and case["mver"] < 2) or "textfloat" in features or "textcomplex" in features:
                expected, got = cn.normalize_nan(expected), cn.normalize_nan(got)
            d = cn.diff(expected, got)
            if d:
                res.fail("%s|diff|exp=%s|got=%s" % (sigbase, _k(d[1]), _k(d[2])),
                         "co_consts differ at %s: CPython %s, xdis %s" % d,
                         {"expected": cn.summary(expected, 400), "got": cn.summary(got, 400)})
            elif consumed != len(payload):
                res.fail("%s|consumed" % sigbase, "payload %d bytes, consumed %d" % (len(payload), consumed))
            if got_fields is not None and got_fields != expected_fields:
                bad = sorted(f for f in expected_fields if got_fields.get(f) != expected_fields[f])
                res.fail("%s|code-header-field|%s" % (sigbase, bad[0]), "target %s: code header fields differ: %s" % (
                    target, ", ".join("%s: CPython %s, xdis %s" % (f, expected_fields[f], got_fields.get(f)) for f in bad)))
        nt = sorted(features & {"backref", "py2-stringref", "container>=256", "big", "dict", "D", "nonascii",
                                "nonascii-text"} | set(f for f in features if f.startswith("backref")))
        res.nontrivial = bool(nt)
        res.key = rw.hx(payload)
        res.classes = ["enc:" + enc, "target:" + wire] + sorted(
            "f:" + f for f in features if not f.startswith("flagref:") and len(f) > 1) + sorted(
            "kind:" + f for f in features if len(f) == 1)
        if any(f.startswith("flagref:") for f in features):
            res.classes.append("f:flagref-unreferenced-or-shared")
        if case["mver"] is not None:
            res.classes.append("mver:%d" % case["mver"])
        res.sample = {"target": wire, "enc": enc, "mver": case["mver"], "payload_hex": rw.hx(payload)[:160],
                      "payload_len": len(payload), "features": sorted(features)[:12]}
        return res


def _nolong(t):
    """canonical tree without the Python 2 long marker (the encoder chooses i / I / l itself)"""
    k = t[0]
    if k == "i":
        return ["i", t[1]]
    if k in ("T", "L", "S", "Z"):
        return [k, [_nolong(x) for x in t[1]]]
    if k == "D":
        return [k, [[_nolong(a), _nolong(b)] for a, b in t[1]]]
    return t


def _nodes(t):
    k = t[0]
    if k in ("T", "L", "S", "Z"):
        return 1 + sum(_nodes(x) for x in t[1])
    if k == "D":
        return 1 + sum(_nodes(a) + _nodes(b) for a, b in t[1])
    return 1


def _k(summary):
    s = summary.lstrip("[").lstrip('"')
    return s[:1] if s else "?"


def _shares(vals):
    acc = {}
    for v in vals:
        gv.share_counts(v, acc)
    return acc


PROP = C10()
