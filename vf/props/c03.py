"""C03 - operands resolve to the same constant, name or variable."""
from vf.props.progbase import ProgProp


class C03(ProgProp):
    id = "C03"
    use_asm = True
    aspects = ("argval",)
    rule = ("case = (bytecode version, program) from G-PROG (biased to closures where a parameter is a cell, "
            "class bodies, comprehensions, > 255 names/constants) / stdlib sample; for every instruction whose "
            "opcode is in hasconst/hasname/haslocal/hasfree/hascompare of the *reference* opcode module, xdis "
            "argval == CPython dis argval (canonical value; comparison operators by operator identity); "
            "non-trivial = table-indexed instruction class (version, opname, operand >= 256?) seen; "
            "distinct = (version, kind, opname, operand class)")
    assumptions = ["CPython's dis argval is ground truth; its UNKNOWN sentinel (3.11 KW_NAMES) is skipped",
                   "xdis spells 'not-in', 'is-not', 'exception-match' with hyphens: compared by cmp_op index"]

    def classify(self, case, ref, x, c, res):
        keys = [[case["v"]] + list(k) for k in sorted(c.nt.get("argval", ()))]
        res.nt_keys = keys
        res.evals = max(1, sum(len(d.get("instrs", ())) for d in ref["dis"] if isinstance(d, dict)))
        for k in keys:
            if k[3] == "big":
                res.classes.append("operand>=256:" + k[1])


PROP = C03()
