"""C03 - operands resolve to the same constant, name or variable."""
from vf import refworker as rw
from vf.props.progbase import ProgProp


class C03(ProgProp):
    id = "C03"
    use_asm = True
    aspects = ("argval",)
    rule = ("case = (bytecode version, program) from G-PROG (biased to closures where a parameter is a cell, "
            "class bodies, comprehensions, > 255 names/constants) / stdlib sample; for every instruction whose "
            "opcode is in hasconst/hasname/haslocal/hasfree/hascompare of the *reference* opcode module, xdis "
            "argval == CPython dis argval (canonical value; comparison operators by operator identity); "
            "non-trivial = table-indexed instruction class (version, opname, operand >= 256?) seen; "
            "distinct = (version, kind, opname, operand class)")
    assumptions = ["CPython's dis argval is ground truth; its UNKNOWN sentinel (3.11 KW_NAMES) is skipped",
                   "xdis spells 'not-in', 'is-not', 'exception-match' with hyphens: compared by cmp_op index"]

    def fixed_cases(self, ctx):
        for c in super().fixed_cases(ctx):
            yield c
        for c in self.patch_api_cases(ctx):
            yield c
        # > 255 constants and names, one statement per line (every operand beyond 255 starts a line with its EXTENDED_ARG)
        many = "".join("v%d = %d\n" % (i, 1000 + i) for i in range(300)) + "def f():\n    return v299, v0\n"
        for v in self.versions:
            yield {"k": "prog", "v": v, "src": many}
        big = "x = '%s'\ny = b'%s'\n" % ("a" * 1500000, "b" * 1100000)
        for v in ("2.7", "3.8", "3.11"):
            yield {"k": "prog", "v": v, "src": big if v != "2.7" else big.replace("b'", "'")}
        from vf.props import c09
        for name in sorted(c09.tables(rw.xd())):
            yield {"k": "family", "table": name}

    def judge(self, case, ctx):
        if case.get("k") != "family":
            res = super().judge(case, ctx)
            if case.get("k") == "asm" and isinstance(case.get("patch"), int) and not res.reject and not res.failures:
                self.judge_patch_api(case, ctx, res)
            return res
        # versions nobody can run any more: the category sets that drive operand resolution, judged through the
        # CPython of the same family (an opcode keeps its name only while it keeps its meaning)
        from vf.props import c09
        from vf.run import Result
        res = Result()
        x = rw.xd()
        opc = c09.tables(x).get(case.get("table"))
        vt = tuple(opc.version_tuple[:2]) if opc is not None and getattr(opc, "version_tuple", None) else None
        fam = c09.family_reference(vt) if vt else None
        if not fam:
            res.reject = "version-has-its-own-interpreter-or-base-table"
            return res
        key = ("optab", fam)
        if key not in ctx.cache:
            ctx.cache[key] = ctx.pool.ref(fam).call("opcode_tables")
        cats = ["hasconst", "hasname", "haslocal", "hasfree", "hascompare"]
        for n, cat, a, b in c09.family_consistency(case["table"], opc, ctx.cache[key], cats):
            res.fail("C03|family-category|%s|%s|%s" % (case["table"], cat, n), "%s: operand of %s %s resolved through the %s table; CPython %s (same opcode, same family) %s" % (
                case["table"], n, "is" if a else "is not", cat[3:], fam, "resolves it so" if b else "does not"))
        res.nontrivial = True
        res.key = ["family", case["table"]]
        res.evals = len(opc.opmap)
        res.classes = ["source:family-consistency", "table:" + case["table"]]
        res.sample = {"table": case["table"], "oracle": "same-named opcode has the same operand category as in CPython " + fam}
        return res

    def classify(self, case, ref, x, c, res):
        keys = [[case["v"]] + list(k) for k in sorted(c.nt.get("argval", ()))]
        res.nt_keys = keys
        # operand-carrying instructions whose argval was compared (padding runs of NOPs do not count)
        res.evals = max(1, sum(1 for d in ref["dis"] if isinstance(d, dict) for i in d.get("instrs", ()) if i.get("k")))
        for k in keys:
            if k[3] == "big":
                res.classes.append("operand>=256:" + k[1])


PROP = C03()
