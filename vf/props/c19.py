"""C19 - freeze() encodes a line table that decodes back to the same mapping."""
import traceback

from hypothesis import strategies as st

from vf import refworker as rw
from vf.props.c10 import xdis_frame
from vf.run import Result

TYPES = {
    # portable type -> (opcode table whose findlinestarts decodes it, reference CPythons, decreasing lines allowed)
    "Code2": ((2, 7), ["2.7"], False),
    "Code3": ((3, 7), ["3.7", "3.6"], False),
    "Code38": ((3, 8), ["3.8", "3.9"], True),
    "Code310": ((3, 10), ["3.10"], True),
}

# the other opcode tables of each type's version range: their line-start routine must decode the same frozen table
ALSO = {
    "Code2": [(2, 0), (2, 1), (2, 2), (2, 3), (2, 4), (2, 5), (2, 6)],
    "Code3": [(3, 0), (3, 1), (3, 2), (3, 3), (3, 4), (3, 5), (3, 6)],
    "Code38": [(3, 9)],
    "Code310": [],
}

GAPS = [1, 2, 3, 10, 100, 126, 127, 128, 129, 200, 254, 255, 256, 257, 300, 511, 600]


def make_portable(x, typ, first, table, codelen):
    ct = x.codetype
    code = bytes([9] * codelen)          # NOPs; only the length matters
    common = dict(co_argcount=0, co_nlocals=0, co_stacksize=1, co_flags=64, co_code=code, co_consts=(None,),
                  co_names=(), co_varnames=(), co_filename="f.py", co_name="f", co_firstlineno=first,
                  co_freevars=(), co_cellvars=())
    if typ == "Code2":
        return ct.Code2(co_lnotab=table, **common)
    if typ == "Code3":
        return ct.Code3(co_kwonlyargcount=0, co_lnotab=table, **common)
    if typ == "Code38":
        return ct.Code38(co_posonlyargcount=0, co_kwonlyargcount=0, co_lnotab=table, **common)
    return ct.Code310(co_posonlyargcount=0, co_kwonlyargcount=0, co_linetable=table, **common)


class C19:
    id = "C19"
    rule = ("case = (portable type Code2/Code3/Code38/Code310, first line, strictly increasing offsets from 0 with gaps "
            "drawn from {1..600 incl. 254-257}, lines with non-zero deltas drawn from +-{1,2,126..129,254..257,300,600} "
            "(negative only for Code38/Code310), table given as an {offset: line} dict); oracle: "
            "list(opc.findlinestarts(c.freeze())) == the mapping for every opcode table of that type's version range (2.0-2.7 / 3.0-3.7 / 3.8,3.9 / 3.10), and the matching "
            "CPython (2.7 / 3.6,3.7 / 3.8,3.9 / 3.10) decodes the frozen bytes attached to a native code object to the "
            "same mapping; non-trivial = a gap needing continuation entries (offset gap >= 255 or |line delta| >= 127) "
            "or a decreasing line; distinct = (type, first line, mapping)")
    assumptions = ["mappings start at offset 0 (Code310: or later, the code before has no line); an entry repeating the previous line is expected to be merged; consecutive entries have different lines (what compilers emit); "
                   "equal consecutive lines are merged by every decoder and are not generated",
                   "Code3 covers 3.0-3.7 (unsigned before 3.6): only non-decreasing lines are required there"]
    budgets = {"quick": {"shards": 8, "examples": 2500, "seconds": 60},
               "thorough": {"shards": 16, "examples": 20000, "seconds": 900}}

    def strategy(self, ctx):
        @st.composite
        def case(draw):
            typ = draw(st.sampled_from(sorted(TYPES)))
            neg_ok = TYPES[typ][2]
            n = draw(st.integers(1, 6))
            first = draw(st.sampled_from([1, 1, 2, 10, 1000]))
            off = 0
            if typ == "Code310":
                # only the 3.10 table can say "no line" for the code before the first pair
                off = draw(st.sampled_from([0, 0, 0, 2, 100, 252, 254, 256, 510, 600]))
            line = first + draw(st.sampled_from([0, 0, 0, 1, 5, 130, 300]))
            pairs = [[off, line]]
            unit = 1 if typ == "Code2" else 2
            for _ in range(n - 1):
                gap = draw(st.one_of(st.sampled_from(GAPS), st.integers(1, 40)))
                gap = max(unit, gap - gap % unit) if unit == 2 else gap
                off += gap
                # (0: the same line again - every decoder merges such an entry into its predecessor)
                mag = draw(st.one_of(st.sampled_from([0, 1, 2, 126, 127, 128, 129, 254, 255, 256, 257, 300, 600]), st.integers(0, 20)))
                sign = -1 if (neg_ok and draw(st.integers(0, 3)) == 0) else 1
                if line + sign * mag < 1:
                    sign = 1
                line += sign * mag
                pairs.append([off, line])
            tail = draw(st.one_of(st.sampled_from([2, 4, 254, 256, 300]), st.integers(1, 20)))
            tail = max(unit, tail - tail % unit) if unit == 2 else tail
            return {"type": typ, "first": first, "pairs": pairs, "as": "dict",
                    "codelen": off + tail}
        return case()

    def judge(self, case, ctx):
        res = Result()
        typ = case.get("type")
        pairs = case.get("pairs")
        if typ not in TYPES or not isinstance(pairs, list) or not pairs or not isinstance(pairs[0], list) or len(pairs[0]) != 2 or (
                pairs[0][0] != 0 and (typ != "Code310" or pairs[0][0] < 0 or pairs[0][0] % 2)):
            res.reject = "malformed-case"
            return res
        offs = [p[0] for p in pairs]
        lines = [p[1] for p in pairs]
        if any(b <= a for a, b in zip(offs, offs[1:])) or \
                min(lines) < 1 or case["codelen"] <= offs[-1] or lines[0] < case["first"]:
            res.reject = "malformed-case"
            return res
        vt, refs, neg_ok = TYPES[typ]
        decreasing = any(b < a for a, b in zip(lines, lines[1:]))
        if decreasing and not neg_ok:
            res.reject = "decreasing-lines-not-required-for-this-type"
            return res
        x = rw.xd()
        table = dict((o, l) for o, l in pairs) if case["as"] == "dict" else [tuple(p) for p in pairs]
        # an entry repeating its predecessor's line starts no new line: decoders report the merged mapping
        want = []
        for o, l in pairs:
            if not want or want[-1][1] != l:
                want.append([o, l])
        sig = "C19|%s" % typ
        big = any(b - a >= 255 for a, b in zip(offs, offs[1:])) or any(abs(b - a) >= 127 for a, b in zip(lines, lines[1:])) \
            or lines[0] - case["first"] >= 127
        res.nontrivial = big or decreasing
        res.key = [typ, case["first"], pairs, case["codelen"]]
        if offs[0] >= 255:
            big = res.nontrivial = True
        res.classes = ["type:" + typ, "given-as:" + case["as"]] + (["repeated-line"] if len(want) != len(pairs) else []) + (["no-line-prefix"] if offs[0] else []) + (["continuation-entries"] if big else []) + (
            ["decreasing-line"] if decreasing else [])
        res.sample = {"type": typ, "first_line": case["first"], "mapping": pairs[:6], "given_as": case["as"]}
        try:
            p = make_portable(x, typ, case["first"], table, case["codelen"])
            p = p.freeze()
            frozen = p.co_linetable if typ == "Code310" else p.co_lnotab
        except Exception as e:
            tb = traceback.format_exc()
            res.fail("%s|freeze-raised|%s|%s" % (sig, type(e).__name__, xdis_frame(tb)), "freeze() raised %s: %s" % (type(e).__name__, e))
            return res
        if isinstance(frozen, str):
            if any(ord(ch) > 255 for ch in frozen):
                res.fail("%s|frozen-table-not-bytes" % sig, "mapping %s froze to a table holding %r: not a byte" % (
                    want[:6], [ord(ch) for ch in frozen if ord(ch) > 255][:4]))
                return res
            fb = frozen.encode("latin-1")
        elif isinstance(frozen, (bytes, bytearray)):
            fb = bytes(frozen)
        else:
            res.fail("%s|frozen-type" % sig, "frozen table has type %s" % type(frozen).__name__)
            return res
        if typ != "Code2" and not isinstance(frozen, bytes):
            res.fail("%s|frozen-not-bytes" % sig, "frozen table of %s is %s, not bytes" % (typ, type(frozen).__name__))
        opc = x.disasm.get_opcode(vt, False)
        try:
            got = [[a, b] for a, b in opc.findlinestarts(p)]
        except Exception as e:
            res.fail("%s|own-decoder-raised|%s" % (sig, type(e).__name__), "findlinestarts(frozen) raised %s: %s" % (type(e).__name__, e))
            got = None
        if got is not None and got != want:
            res.fail("%s|own-decoder|%s" % (sig, shape(want, got, case)), "mapping %s (first line %d) froze to %s which xdis decodes as %s" % (
                want[:6], case["first"], rw.hx(fb)[:80], got[:6]))
        for avt in ALSO[typ]:
            if got is None:
                break
            # 3.6 tables read line increments as signed (the 3.6 format); before that they are unsigned: lines that grow
            # by more than 127 at once are encoded with continuation entries either way, so every table reads them alike
            try:
                agot = [[a, b] for a, b in x.disasm.get_opcode(avt, False).findlinestarts(p)]
            except Exception as e:
                res.fail("%s|own-decoder-raised|%s|table-%d.%d" % (sig, type(e).__name__, avt[0], avt[1]), "findlinestarts of the %d.%d table raised %s: %s" % (avt[0], avt[1], type(e).__name__, e))
                break
            if agot != want:
                res.fail("%s|own-decoder|table-%d.%d" % (sig, avt[0], avt[1]), "mapping %s (first line %d) froze to %s which the %d.%d table's findlinestarts decodes as %s" % (
                    want[:6], case["first"], rw.hx(fb)[:80], avt[0], avt[1], agot[:6]))
                break
        # the same on another host Python (freeze() and the decoders are plain Python: one answer on 3.8 ... 3.13)
        if (len(fb) + case["codelen"]) % 5 == 0:
            from vf.pool import HOSTS
            h = HOSTS[(len(fb) + case["first"]) % len(HOSTS)]
            r = ctx.pool.host(h).call_raw("x_c19", type=typ, first=case["first"], codelen=case["codelen"], pairs=pairs, vt=list(vt))
            res.classes.append("on-host:" + h)
            if not r["ok"]:
                res.fail("%s|on-host|raised|%s" % (sig, r["err"].split(":")[0]), "on a %s host freeze/decode raised %s" % (h, r["err"][:160]))
            elif r["r"]["frozen"] != rw.hx(fb) or r["r"]["decoded"] != want:
                res.fail("%s|on-host|%s" % (sig, "encode" if r["r"]["frozen"] != rw.hx(fb) else "decode"), "on a %s host the mapping %s freezes to %s and decodes as %s "
                         "(3.12: %s / %s)" % (h, want[:6], r["r"]["frozen"][:60], r["r"]["decoded"][:6], rw.hx(fb)[:60], want[:6]))
        # a frozen object given a NEW table and frozen again encodes the new table
        try:
            shifted = dict((o, l + 3) for o, l in pairs)
            want2 = [[o, l + 3] for o, l in want]
            p2 = p.replace(**{("co_linetable" if typ == "Code310" else "co_lnotab"): shifted})
            p2 = p2.freeze()
            t2 = p2.co_linetable if typ == "Code310" else p2.co_lnotab
            if not isinstance(t2, (bytes, str)):
                res.fail("%s|refreeze|table-not-encoded" % sig, "after freeze(), replace(table=new dict), freeze() the table is still a %s" % type(t2).__name__)
            else:
                got2 = [[a, b] for a, b in opc.findlinestarts(p2)]
                if got2 != want2:
                    res.fail("%s|refreeze|decode" % sig, "after freeze(), replace(table=new dict), freeze(): decodes as %s, the new mapping is %s" % (got2[:6], want2[:6]))
        except Exception as e:
            res.fail("%s|refreeze|raised|%s" % (sig, type(e).__name__), "freeze -> replace(table) -> freeze raised %s: %s" % (type(e).__name__, e))
        for rv in refs:
            r = ctx.pool.ref(rv).call("mkcode", fields={
                "co_code": ["y", rw.hx(bytes([9] * case["codelen"]))], "co_firstlineno": ["i", str(case["first"])],
                "co_linetable": ["y", rw.hx(fb)]}, dis=True)
            if "reject" in r or "referr" in r["dis"][0]:
                res.fail("%s|cpython-rejects|%s" % (sig, rv), "CPython %s cannot use the frozen table %s: %s" % (
                    rv, rw.hx(fb)[:80], r.get("reject") or r["dis"][0].get("referr")))
                continue
            rgot = r["dis"][0]["linestarts"]
            if rgot != want:
                res.fail("%s|cpython-decoder|%s" % (sig, shape(want, rgot, case)), "mapping %s (first line %d) froze to %s which CPython %s decodes as %s" % (
                    want[:6], case["first"], rw.hx(fb)[:80], rv, rgot[:6]))
        return res


def shape(want, got, case):
    offs = [p[0] for p in want]
    lines = [case["first"]] + [p[1] for p in want]
    f = []
    if any(b - a >= 255 for a, b in zip(offs, offs[1:])):
        f.append("offset-gap>=255")
    if any(b - a >= 127 for a, b in zip(lines, lines[1:])):
        f.append("line-gap>=127")
    if any(b < a for a, b in zip(lines, lines[1:])):
        f.append("decreasing")
    return "+".join(f) or "plain"


PROP = C19()
