"""C12 - listings are total, faithful to the instruction stream, and clean."""
import contextlib
import io
import os
import re
import subprocess
import sys
import traceback

from hypothesis import strategies as st

from vf import progdiff as pd
from vf import refworker as rw
from vf.gen import prog as gp
from vf.pool import ALL_VERSIONS, REPO
from vf.props.c10 import xdis_frame
from vf.props.progbase import ProgProp
from vf.gen import asm as ga
from vf.run import Result

FORMATS = ["classic", "bytes", "extended", "extended-bytes", "xasm", "header"]

INSTR = re.compile(r"^\s*(?:(-?\d+):)?\s*(-->)?\s*(>>)?\s*(\d+) (?:(\|[0-9a-f ]*\|) )?(\S+)(?:\s+(.*))?$")
EXC_ROW = re.compile(r"^  \d+ to -?\d+ -> \d+ \[\d+\]( lasti)?$")


class capture_stdout(object):
    """everything written to standard output while active: through sys.stdout AND straight to file descriptor 1 (a stream
    object captured at import time, e.g. as a default argument, bypasses a replaced sys.stdout)"""

    def __enter__(self):
        import tempfile
        self.py = io.StringIO()
        self.cm = contextlib.redirect_stdout(self.py)
        try:
            sys.__stdout__.flush()
        except Exception:
            pass
        self.saved = os.dup(1)
        self.tmp = tempfile.TemporaryFile()
        os.dup2(self.tmp.fileno(), 1)
        self.cm.__enter__()
        return self

    def __exit__(self, *a):
        self.cm.__exit__(*a)
        try:
            sys.__stdout__.flush()
        except Exception:
            pass
        os.dup2(self.saved, 1)
        os.close(self.saved)
        self.tmp.seek(0)
        self.raw = self.tmp.read().decode("utf-8", "replace")
        self.tmp.close()
        return False

    def getvalue(self):
        return self.py.getvalue() + getattr(self, "raw", "")


def split_blocks(text):
    """[(header lines, body lines)] per code object of a classic/bytes listing"""
    lines = text.split("\n")
    starts = [i for i, l in enumerate(lines) if l.startswith("# Method Name:")]
    fstarts = [i for i, l in enumerate(lines) if l.startswith("# Filename:")]
    # every code object prints "# Filename:"; "# Method Name:" precedes it except for old '?' modules
    marks = []
    for f in fstarts:
        marks.append(f - 1 if f > 0 and lines[f - 1].startswith("# Method Name:") else f)
    blocks = []
    for j, m in enumerate(marks):
        end = marks[j + 1] if j + 1 < len(marks) else len(lines)
        blocks.append(lines[m:end])
    return lines[:marks[0]] if marks else lines, blocks


class C12:
    id = "C12"
    rule = ("case = (bytecode file: G-PROG program or stdlib sample compiled by 2.7/3.6-3.13, or a corpus file of any "
            "version 1.0-3.12/PyPy) x all six formats; oracle: (a) disassemble_file returns without raising for every "
            "format; (b) the classic and bytes listings parse back, block by block, to exactly the instruction stream "
            "of one code object each (non-CACHE instructions in classic, all in bytes): offset, opname, operand text "
            "(argrepr or repr(arg)), '>>' iff is_jump_target, line number iff starts_line, and every other line is a "
            "comment, blank or an ExceptionTable row; (c) nothing is written to sys.stdout/sys.stderr-independent "
            "stdout when an out stream is given, and `pydisasm` as a subprocess exits 0 with exactly that listing on "
            "stdout; non-trivial = file with >= 2 code objects and >= 1 jump target; distinct = (file, format)")
    assumptions = ["the instruction stream itself is judged by C02-C05; here only listing == stream",
                   "line numbers are not compared for files using SET_LINENO (pre-2.3): the listing deliberately moves "
                   "them to the following instruction"]
    budgets = {"quick": {"shards": 14, "examples": 48, "seconds": 85},
               "thorough": {"shards": 16, "examples": 700, "seconds": 1500}}

    pp = ProgProp()

    def strata(self, ctx):
        from vf.gen import tables as gt
        max_size = 20000 if ctx.tier == "quick" else 100000
        sub = st.sampled_from([True, False, False, False])
        out = []
        for v in ALL_VERSIONS:
            out.append(["prog:" + v, st.tuples(st.integers(2, 4).flatmap(lambda n, v=v: gp.programs(v, size=n)), sub).map(
                lambda p, v=v: {"k": "prog", "v": v, "src": p[0], "subprocess": p[1]}), 4])
            out.append(["stdlib:" + v, st.tuples(st.sampled_from(pd.stdlib_files(ctx, v, max_size)), sub).map(
                lambda p, v=v: {"k": "stdlib", "v": v, "path": p[0], "subprocess": p[1]}), 2])
            out.append(["asm:" + v, ga.asm_cases(v, self.pp.tables(ctx, v), padding=False).map(
                lambda items, v=v: {"k": "asm", "v": v, "items": items, "subprocess": False}), 2])
            # a drawn line / location table on a run of NOPs: the line-number column against CPython's dis
            vtup = pd.vt(v)
            if vtup >= (3, 11):
                @st.composite
                def loc(draw, v=v):
                    first = draw(st.sampled_from([1, 1, 5, 1000]))
                    return {"k": "loctab", "v": v, "first": first, "entries": draw(gt.loctab_entries(first)), "exc": [], "subprocess": False}
                out.append(["table:" + v, loc(), 2])
            else:
                out.append(["table:" + v, gt.lnotab_cases(vtup).map(lambda c, v=v: dict(c, k="lnotab", v=v, subprocess=False)), 2])
        # the SAME code bytes listed as two versions, one after the other in this process (3.9 -> 3.10 changes what a
        # jump operand means): a listing must not depend on what was listed before
        for v1, v2 in [("3.9", "3.10"), ("3.10", "3.9"), ("3.6", "3.7"), ("3.7", "3.8"), ("3.8", "3.9")]:
            out.append(["asmpair:%s-%s" % (v1, v2), ga.asm_cases(v1, self.pp.tables(ctx, v1), padding=False).map(
                lambda items, v1=v1, v2=v2: {"k": "asmpair", "v": v1, "v2": v2, "items": items, "subprocess": False}), 1])
        return out

    def strategy(self, ctx):
        return st.one_of([s_ for _, s_, _ in self.strata(ctx)])

    def fixed_cases(self, ctx):
        for p in pd.corpus_files():
            if "dropbox" in p:
                continue
            yield {"k": "corpus", "path": p, "subprocess": False}
        from vf.props.progbase import OLD_ASM
        for v in OLD_ASM:
            tab = self.pp.old_tables(ctx, v)
            sweeps = [it for it in ga.opcode_sweeps(tab) if any(i.get("to") is not None for i in it)]
            for items in ga.jump_patterns(tab) + sweeps:
                yield {"k": "asmold", "v": v, "items": items, "subprocess": False}
        for v in ALL_VERSIONS:
            for items in ga.jump_patterns(self.pp.tables(ctx, v)):
                yield {"k": "asm", "v": v, "items": items, "subprocess": False}
            # opcode number 0 (STOP_CODE / unnamed before 3.11, where 0 became CACHE): a row like any other
            if pd.vt(v) < (3, 11):
                nop = self.pp.tables(ctx, v).opmap["NOP"]
                code = bytes([0, nop, 0, 0, nop]) if pd.vt(v) < (3, 6) else bytes([0, 0, nop, 0, 0, 0, 0, 0, nop, 0])
                yield {"k": "rawcode", "v": v, "code": rw.hx(code), "subprocess": False}

    def judge(self, case, ctx):
        if case.get("k") == "asmold":
            return self.judge_one(case, ctx)
        if case.get("k") == "asmpair":
            return self.judge_pair(case, ctx)
        return self.judge_one(case, ctx)

    def judge_pair(self, case, ctx):
        v1, v2 = case.get("v"), case.get("v2")
        if v1 not in ALL_VERSIONS or v2 not in ALL_VERSIONS:
            r = Result()
            r.reject = "malformed-case"
            return r
        tab1 = self.pp.tables(ctx, v1)
        for it in case.get("items", []):
            if not isinstance(it, dict) or it.get("op") not in tab1.opmap:
                r = Result()
                r.reject = "malformed-case"
                return r
        co_code, _, _ = ga.assemble(tab1, case["items"])
        first = self.judge_one({"k": "rawcode", "v": v1, "code": rw.hx(co_code), "subprocess": False}, ctx)
        second = self.judge_one({"k": "rawcode", "v": v2, "code": rw.hx(co_code), "subprocess": False}, ctx)
        if first.reject or second.reject:
            first.reject = first.reject or second.reject
            return first
        second.failures = first.failures + second.failures
        second.classes = [c for c in second.classes if not c.startswith("version:")] + ["pair:%s-then-%s" % (v1, v2)]
        second.evals += first.evals
        return second

    def judge_one(self, case, ctx):
        res = Result()
        k = case.get("k")
        x = rw.xd()
        if k == "corpus":
            path = os.path.join(pd.CORPUS_DIR, case["path"])
            if not os.path.exists(path) or os.path.getsize(path) > (40000 if ctx.tier == "quick" else 400000):
                res.reject = "corpus-file-too-big-for-tier"
                return res
            label = case["path"]
        elif k == "asmold":
            # versions nobody can run: the listing of an assembled code object against the harness's own decode
            from vf.props.progbase import OLD_ASM
            if case.get("v") not in OLD_ASM:
                res.reject = "malformed-case"
                return res
            built = self.pp.old_file(ctx, case["v"], case.get("items"))
            if built is None:
                res.reject = "malformed-case"
                return res
            tab, co_code, dec, labels, hdr, payload, sk = built
            ref = {"dis": [{"instrs": [{"o": o, "j": o in labels} for (o, op, arg, tgt) in dec]}]}
            path = os.path.join(ctx.scratch, "l.pyc")
            with open(path, "wb") as f:
                f.write(hdr + payload)
            label = "%s:assembled" % case["v"]
            k = "asm"
        elif k in ("prog", "stdlib", "asm", "rawcode", "lnotab", "loctab") and case.get("v") in ALL_VERSIONS:
            v = case["v"]
            if k in ("lnotab", "loctab"):
                if (k == "lnotab") != (pd.vt(v) < (3, 11)):
                    res.reject = "malformed-case"
                    return res
                try:
                    ref = self.pp.table_reference(case, ctx)
                except (KeyError, TypeError, ValueError, IndexError):
                    ref = {"reject": "malformed-table-case"}
                k = "asm"
            elif k == "rawcode":
                tab = self.pp.tables(ctx, v)
                ref = ctx.pool.ref(v).call("mkcode", fields=ga.code_fields(tab, rw.unhx(case["code"]), rw.hx), dis=True)
                if "reject" not in ref and "referr" in ref["dis"][0]:
                    ref = {"reject": "reference-dis-cannot-render"}
                k = "asm"
            elif k == "prog":
                # the source is put where co_filename points, so that the show_source option has something to show
                srcpath = os.path.join(ctx.scratch, "prog_src.py")
                with open(srcpath, "wb") as f:
                    f.write(case["src"].encode("utf-8"))
                ref = ctx.pool.ref(v).call("compile", src=case["src"], dis=True, max_code=2400, filename=srcpath)
            elif k == "asm":
                ref = self.pp.reference(case, ctx)
            else:
                ref = ctx.pool.ref(v).call("compile_file", path=case["path"], dis=False)
            if "reject" in ref:
                res.reject = "compiler-rejects:" + ref["reject"].split(":")[0]
                return res
            path = os.path.join(ctx.scratch, "l.pyc")
            with open(path, "wb") as f:
                f.write(rw.unhx(ref["header"]) + rw.unhx(ref["payload"]))
            label = "%s:%s" % (v, case.get("path", "assembled" if k == "asm" else "generated"))
        else:
            res.reject = "malformed-case"
            return res
        # the stream the listing must reproduce
        try:
            d = rw.x_dump_file(path=path, want_dis=True, max_code=(2400 if ctx.tier == "quick" else 8000), dup_lines=True)
        except Exception as e:
            res.reject = "xdis-cannot-load(C01's subject):%s" % type(e).__name__
            return res
        vs = ".".join(str(p) for p in d["header"]["version"][:2]) + ("pypy" if d["header"]["is_pypy"] else "")
        if any("skipped" in c or "instrs_err" in c for c in d["dis"]):
            res.reject = "code-object-above-size-cap-or-undecodable(C02's subject)"
            return res
        def has_break(t):
            if not isinstance(t, list) or not t:
                return False
            if t[0] in ("t", "y") and isinstance(t[1], str):
                return "0a" in [t[1][j:j + 2] for j in range(0, len(t[1]), 2)] or "0d" in [t[1][j:j + 2] for j in range(0, len(t[1]), 2)]
            if t[0] in ("T", "L", "S", "Z"):
                return any(has_break(e) for e in t[1])
            if t[0] == "D":
                return any(has_break(a) or has_break(b) for a, b in t[1])
            if t[0] == "C":
                return any(has_break(v_) for f_, v_ in t[1].items() if f_ in ("co_consts", "co_names", "co_varnames"))
            return False
        if tuple(d["header"]["version"][:2]) < (3, 0) and has_break(d.get("tree")):
            # the same for the constants listed in the code-info header of a Python 2 file
            res.reject = "operand-text-with-raw-line-break"
            return res
        if any("\n" in (i["r"] or "") or "\r" in (i["r"] or "") for c in d["dis"] for i in c["instrs"]):
            # the repr xdis gives Python 2 unicode constants is not escaped; a raw line break inside an
            # operand cannot be parsed back line by line (not what this property is about)
            res.reject = "operand-text-with-raw-line-break"
            return res
        texts = {}
        show_cls = []
        # assembled instruction sequences are well-formed code objects but not stack-valid programs: the
        # stack-simulating extended formats (and xasm) are only exercised on compiler output
        for fmt in (FORMATS if k != "asm" else ["classic", "bytes", "header"]):
            out = io.StringIO()
            cap_out = capture_stdout()
            try:
                with cap_out:
                    x.disasm.disassemble_file(path, out, fmt)
                texts[fmt] = out.getvalue()
            except Exception as e:
                tb = traceback.format_exc()
                res.fail("C12|%s|%s|raised|%s|%s" % (vs, fmt, type(e).__name__, xdis_frame(tb)),
                         "%s -F %s raised %s: %s" % (label, fmt, type(e).__name__, e), {"tb": tb[-1500:]})
                continue
            if cap_out.getvalue():
                res.fail("C12|%s|stdout-noise" % fmt, "%s -F %s wrote to sys.stdout: %r" % (label, fmt, cap_out.getvalue()[:200]))
        if case.get("k") == "prog" and "classic" in texts:
            # show_source=True only ADDS '# <source line>' comment lines to the listing, and writes them to the same stream
            out = io.StringIO()
            cap_out = capture_stdout()
            try:
                with cap_out:
                    x.disasm.disassemble_file(path, out, "classic", show_source=True)
                plain = [ln for ln in out.getvalue().split("\n") if not re.match(r"^ {13}# ", ln)]
                shown = sum(1 for ln in out.getvalue().split("\n") if re.match(r"^ {13}# ", ln))
                show_cls.append("show_source:%s" % ("lines-shown" if shown else "nothing-shown"))
                if cap_out.getvalue():
                    res.fail("C12|show_source|stdout-noise", "%s with show_source=True wrote to sys.stdout: %r" % (label, cap_out.getvalue()[:200]))
                elif norm("\n".join(plain)) != norm(texts["classic"]):
                    a, b = norm("\n".join(plain)).split("\n"), norm(texts["classic"]).split("\n")
                    k2 = next((i for i in range(min(len(a), len(b))) if a[i] != b[i]), min(len(a), len(b)))
                    res.fail("C12|show_source|listing-differs", "%s: apart from its '# source' lines the show_source listing differs from the plain one "
                             "at line %d: %r vs %r" % (label, k2, a[k2:k2 + 1], b[k2:k2 + 1]))
            except Exception as e:
                tb = traceback.format_exc()
                res.fail("C12|show_source|raised|%s|%s" % (type(e).__name__, xdis_frame(tb)), "%s show_source=True raised %s: %s" % (label, type(e).__name__, e))
        if case.get("k") in ("prog", "stdlib", "asm") and not res.failures and "classic" in texts and os.path.getsize(path) < 60000:
            # the library supports hosts 3.8-3.13: the same listing whatever it runs on (formats with host-only features
            # in their code - zip(strict=), removesuffix, match - fail on the older ones)
            from vf.pool import HOSTS
            hsel = HOSTS[(len(texts["classic"]) + os.path.getsize(path)) % len(HOSTS)]
            fmts_h = ["classic", "extended"] if k != "asm" else ["classic"]
            for fmt in fmts_h:
                if fmt not in texts:
                    continue
                r = ctx.pool.host(hsel).call_raw("x_listing", data=rw.hx(open(path, "rb").read()), fmt=fmt)
                show_cls.append("listing-on-host:" + hsel)
                if not r["ok"]:
                    res.fail("C12|%s|%s|raised-on-host|%s" % (vs, fmt, r["err"].split(":")[0]), "%s -F %s raises on a Python %s host (%s) but lists on 3.12" % (
                        label, fmt, hsel, r["err"][:160]))
                elif hsel != vs and norm_host(r["r"]["text"]) != norm_host(texts[fmt]):
                    a, b = norm_host(r["r"]["text"]).split("\n"), norm_host(texts[fmt]).split("\n")
                    k2 = next((i for i in range(min(len(a), len(b))) if a[i] != b[i]), min(len(a), len(b)))
                    res.fail("C12|%s|%s|differs-on-host" % (vs, fmt), "%s -F %s: host %s line %d %r, host 3.12 %r" % (label, fmt, hsel, k2, a[k2:k2 + 1], b[k2:k2 + 1]))
        njt = sum(1 for c in d["dis"] for i in c["instrs"] if i["j"])
        res.nontrivial = len(d["dis"]) >= 2 and njt >= 1
        res.nt_keys = [[label if k not in ("prog", "asm") else (case.get("src") or case.get("items")), f] for f in texts] if res.nontrivial else []
        res.evals = len(FORMATS)
        res.classes = ["version:" + vs, "source:" + k] + show_cls
        res.sample = {"file": label, "version": vs, "code_objects": len(d["dis"]), "formats_ok": sorted(texts)}
        refdis = ref.get("dis") if k in ("prog", "asm") else None
        for fmt in ("classic", "bytes"):
            if fmt in texts:
                self.faithful(label, vs, fmt, texts[fmt], d, res, refdis)
        if case.get("subprocess") and "classic" in texts:
            env = dict(os.environ)
            env["PYTHONPATH"] = REPO
            env["PYTHONWARNINGS"] = "ignore"
            p = subprocess.run([sys.executable, "-m", "xdis.bin.pydisasm", "-F", "classic", path], env=env, cwd=ctx.scratch,
                               stdout=subprocess.PIPE, stderr=subprocess.PIPE, timeout=300)
            res.classes.append("pydisasm-subprocess")
            so = p.stdout.decode("utf-8", "replace")
            if p.returncode != 0:
                res.fail("C12|%s|pydisasm-exit" % vs, "%s: pydisasm exit status %d: %s" % (label, p.returncode, p.stderr.decode()[-300:]))
            elif norm(so) != norm(texts["classic"]):
                a, b = norm(so).split("\n"), norm(texts["classic"]).split("\n")
                k2 = next((i for i in range(min(len(a), len(b))) if a[i] != b[i]), min(len(a), len(b)))
                res.fail("C12|%s|pydisasm-stdout-differs" % vs, "%s: pydisasm stdout differs from the listing at line %d: %r vs %r" % (
                    label, k2, a[k2:k2 + 1], b[k2:k2 + 1]))
        return res

    def faithful(self, label, vs, fmt, text, d, res, refdis=None):
        head, blocks = split_blocks(text)
        streams = []
        for c in d["dis"]:
            ins = [i for i in c["instrs"] if fmt == "bytes" or i["n"] != "CACHE"]
            streams.append(ins)
        set_lineno = any(i["n"] == "SET_LINENO" for c in d["dis"] for i in c["instrs"])
        old = tuple(d["header"]["version"][:2]) < (2, 3)
        unmatched = list(range(len(streams)))
        sig = "C12|%s|%s" % (vs, fmt)
        # a section is a code-info header followed by instruction rows; a header printed twice (module whose
        # co_name is not the text '<module>') has no rows of its own
        def has_rows(block):
            return any(l.strip() and not l.startswith("#") for l in block)
        blocks = [b for b in blocks if has_rows(b) or len(blocks) == len(streams)]
        if len(blocks) != len(streams):
            res.fail(sig + "|block-count", "%s: listing has %d code-object sections, file has %d code objects" % (label, len(blocks), len(streams)))
            return
        if old and not set_lineno:
            # 1.5-2.2 bytecode compiled with -O: there is a line table but no SET_LINENO
            any_line = any(INSTR.match(l) and INSTR.match(l).group(1) for b in blocks for l in b if not l.startswith("#"))
            wants = any(i["l"] is not None for st_ in streams for i in st_)
            if wants and not any_line:
                res.fail("C12|pre-2.3|-O-file-listed-without-line-numbers", "%s: instructions start lines (co_lnotab) but the %s listing shows no line number" % (label, fmt))
            set_lineno = True
        for bi, block in enumerate(blocks):
            rows = []
            for ln in block:
                if ln.startswith("#") or not ln.strip() or ln == "ExceptionTable:" or EXC_ROW.match(ln):
                    continue
                m = INSTR.match(ln)
                if not m:
                    res.fail(sig + "|unexpected-line", "%s: line is neither instruction nor comment: %r" % (label, ln[:160]))
                    return
                rows.append(m)
            key = [(int(m.group(4)), m.group(6)) for m in rows]
            cands = [si for si in unmatched if [(i["o"], i["n"]) for i in streams[si]] == key]
            if not cands:
                # find the closest stream to explain
                best = min(unmatched, key=lambda si: abs(len(streams[si]) - len(key))) if unmatched else None
                why = ""
                if best is not None:
                    exp = [(i["o"], i["n"]) for i in streams[best]]
                    k2 = next((j for j in range(min(len(exp), len(key))) if exp[j] != key[j]), min(len(exp), len(key)))
                    why = "; vs closest stream at row %d: listing %s, stream %s (lengths %d / %d)" % (
                        k2, key[k2:k2 + 1], exp[k2:k2 + 1], len(key), len(exp))
                res.fail(sig + "|instructions-differ", "%s: section %d lists a sequence that is no code object's stream%s" % (label, bi, why))
                return
            # several code objects can have the same (offset, opname) sequence: take the one whose rows agree
            problems = None
            for si in cands:
                problems = self.rows_vs_stream(rows, streams[si], fmt, set_lineno)
                if problems is None:
                    unmatched.remove(si)
                    # the marks against the producing CPython's own dis (when it exists for this file)
                    if refdis is not None and si < len(refdis) and refdis[si].get("linestarts") and not set_lineno:
                        shown = dict((int(m.group(4)), int(m.group(1)) if m.group(1) else None) for m in rows)
                        for o, line in refdis[si]["linestarts"]:
                            if line is not None and o in shown and shown[o] != line:
                                res.fail(sig + "|line-number-vs-cpython", "%s: offset %d: CPython's dis starts line %s there, the listing shows %s" % (
                                    label, o, line, shown[o]))
                                return
                    if refdis is not None and si < len(refdis) and "instrs" in refdis[si]:
                        rj = dict((r["o"], r["j"]) for r in refdis[si]["instrs"])
                        for m in rows:
                            o = int(m.group(4))
                            if o in rj and bool(m.group(3)) != rj[o]:
                                res.fail(sig + "|jump-mark-vs-cpython", "%s: offset %d %s: listing %s '>>' but the reference (CPython's dis, or the harness decode for versions without an interpreter) says is_jump_target=%s" % (
                                    label, o, m.group(6), "shows" if m.group(3) else "has no", rj[o]))
                                return
                    break
            if problems is not None:
                kind, o, n, msg = problems
                res.fail(sig + "|" + kind, "%s: offset %d %s: %s" % (label, o, n, msg))
                return

    @staticmethod
    def rows_vs_stream(rows, stream, fmt, set_lineno):
        for m, i in zip(rows, stream):
            if bool(m.group(3)) != i["j"]:
                return ("jump-mark", i["o"], i["n"], "'>>' %s but is_jump_target=%s" % (bool(m.group(3)), i["j"]))
            if not set_lineno:
                shown = int(m.group(1)) if m.group(1) else None
                if shown != i["l"]:
                    return ("line-number", i["o"], i["n"], "listing shows line %s, starts_line=%s" % (shown, i["l"]))
            operand = (m.group(7) or "").strip()
            if i["a"] is None:
                exp = i["r"] or ""
                if operand not in ("", exp):
                    return ("operand-on-argless", i["o"], i["n"], "takes no operand, listing shows %r" % operand)
            else:
                exp = "(%s)" % i["r"] if i["r"] else repr(i["a"])
                if norm(operand) != norm(exp.rstrip()):
                    return ("operand", i["o"], i["n"], "listing operand %r, instruction %r" % (operand[:80], exp[:80]))
        return None


def norm_host(t):
    """a listing without what legitimately names the host or the file's location"""
    from vf.props.c07 import norm_listing
    return norm_listing(t)


def norm(t):
    """object addresses differ from run to run; so does the element order of sets whose members hash by
    address (Ellipsis, None, code objects) - lines showing a set are compared as character multisets"""
    t = re.sub(r"0x[0-9a-f]+", "0xX", t)
    out = []
    for ln in t.split("\n"):
        if "frozenset(" in ln or "{" in ln:
            ln = "".join(sorted(ln))
        out.append(ln)
    return "\n".join(out)


PROP = C12()
