"""C09 - opcode tables match the interpreter's own opcode module."""
from hypothesis import strategies as st

from vf import progdiff as pd
from vf import refworker as rw
from vf.pool import ALL_VERSIONS
from vf.run import Result

CATS = ["hasjrel", "hasjabs", "hasconst", "hasname", "haslocal", "hasfree", "hascompare"]


def norm(n):
    return n.replace("+", "_")


def tables(x):
    """distinct opcode-table modules of xdis.op_imports: {module name: module}"""
    out = {}
    for k, m in x.op_imports.op_imports.items():
        out[m.__name__.split(".")[-1]] = m
    return out


def family_reference(vt):
    """CPython whose opcode names / operand categories a version without interpreter shares: 2.7 for 1.x-2.x,
    3.6 for 3.0-3.5 (an opcode keeps its name only while it keeps its meaning)"""
    if vt >= (3, 6) or vt == (2, 7):
        return None
    return "2.7" if vt < (3, 0) else "3.6"


def family_consistency(name, opc, ref, cats):
    """[(opname, category, xdis_has, family_has)] for same-named opcodes categorised differently"""
    vt = tuple(opc.version_tuple[:2])
    rmap = dict((norm(n), c) for n, c in ref["opmap"].items())
    out = []
    for n, num in sorted(opc.opmap.items()):
        if norm(n) not in rmap:
            continue
        if vt < (1, 3) and n in ("LOAD_FAST", "STORE_FAST"):
            continue        # before 1.3 these indexed the names table (RESERVE_FAST era)
        for cat in cats:
            a = num in getattr(opc, cat)
            b = rmap[norm(n)] in ref.get(cat, [])
            if a != b:
                out.append((n, cat, a, b))
    return out


# When an opcode entered / left CPython's instruction set, for the versions nobody can run any more (1.6 - 3.5).
# Source: the "New in version" / "Changed in version" notes of the dis documentation and Misc/HISTORY; ranges are
# inclusive (first table that has it, last table that has it); several ranges = 2.x and 3.x lines.
HISTORY = {
    "NOP": [((2, 4), (3, 5))], "LIST_APPEND": [((2, 4), (3, 5))], "YIELD_VALUE": [((2, 2), (3, 5))],
    "GET_ITER": [((2, 2), (3, 5))], "FOR_ITER": [((2, 2), (3, 5))], "FOR_LOOP": [((1, 5), (2, 2))],
    "BINARY_FLOOR_DIVIDE": [((2, 2), (3, 5))], "BINARY_TRUE_DIVIDE": [((2, 2), (3, 5))],
    "SET_LINENO": [((1, 5), (2, 2))], "CONTINUE_LOOP": [((2, 1), (3, 5))],
    "LOAD_CLOSURE": [((2, 1), (3, 5))], "LOAD_DEREF": [((2, 1), (3, 5))], "STORE_DEREF": [((2, 1), (3, 5))],
    "MAKE_CLOSURE": [((2, 1), (3, 5))], "DUP_TOPX": [((2, 0), (3, 1))],
    "ROT_FOUR": [((2, 0), (3, 1))], "DUP_TOP_TWO": [((3, 2), (3, 5))], "IMPORT_STAR": [((2, 0), (3, 5))],
    "INPLACE_ADD": [((2, 0), (3, 5))], "PRINT_ITEM_TO": [((2, 0), (2, 7))], "UNPACK_SEQUENCE": [((2, 0), (3, 5))],
    "UNPACK_TUPLE": [((1, 5), (1, 6))], "CALL_FUNCTION_VAR": [((1, 6), (3, 5))], "CALL_FUNCTION_KW": [((1, 6), (3, 5))],
    "WITH_CLEANUP": [((2, 5), (3, 4))], "WITH_CLEANUP_START": [((3, 5), (3, 5))], "STORE_MAP": [((2, 6), (3, 4))],
    "SETUP_WITH": [((2, 7), (2, 7)), ((3, 2), (3, 5))], "BUILD_SET": [((2, 7), (3, 5))],
    "SET_ADD": [((2, 7), (3, 5))], "MAP_ADD": [((2, 7), (2, 7)), ((3, 1), (3, 5))],
    "POP_JUMP_IF_FALSE": [((2, 7), (2, 7)), ((3, 1), (3, 5))], "POP_JUMP_IF_TRUE": [((2, 7), (2, 7)), ((3, 1), (3, 5))],
    "JUMP_IF_FALSE_OR_POP": [((2, 7), (2, 7)), ((3, 1), (3, 5))], "JUMP_IF_TRUE_OR_POP": [((2, 7), (2, 7)), ((3, 1), (3, 5))],
    "JUMP_IF_FALSE": [((1, 5), (2, 6)), ((3, 0), (3, 0))], "JUMP_IF_TRUE": [((1, 5), (2, 6)), ((3, 0), (3, 0))],
    "STOP_CODE": [((1, 5), (3, 2))], "STORE_LOCALS": [((3, 0), (3, 3))], "YIELD_FROM": [((3, 3), (3, 5))],
    "LOAD_CLASSDEREF": [((3, 4), (3, 5))], "DELETE_DEREF": [((3, 2), (3, 5))], "POP_EXCEPT": [((3, 0), (3, 5))],
    "LOAD_BUILD_CLASS": [((3, 0), (3, 5))], "BUILD_CLASS": [((1, 5), (2, 7))], "UNPACK_EX": [((3, 0), (3, 5))],
    "PRINT_ITEM": [((1, 5), (2, 7))], "EXEC_STMT": [((1, 5), (2, 7))], "UNARY_CONVERT": [((1, 5), (2, 7))],
    "BINARY_DIVIDE": [((1, 5), (2, 7))], "SLICE_0": [((1, 5), (2, 7))], "LOAD_LOCALS": [((1, 5), (2, 7))],
    "BINARY_MATRIX_MULTIPLY": [((3, 5), (3, 5))], "GET_AWAITABLE": [((3, 5), (3, 5))], "GET_AITER": [((3, 5), (3, 5))],
    "BEFORE_ASYNC_WITH": [((3, 5), (3, 5))], "BUILD_LIST_UNPACK": [((3, 5), (3, 5))],
}
# operand categories of opcodes that died before any interpreter we can run: (name, category, first, last).
# Source: Lib/dis.py of Python 1.0-1.4 (its compiled form is among the sample files: test/bytecode_1.*/dis.pyc),
# which declares  name_op('LOAD_LOCAL', 115)  like LOAD_NAME / LOAD_GLOBAL.
CATEGORY_HISTORY = [("LOAD_LOCAL", "hasname", (1, 0), (1, 4))]
# same opcode name in two adjacent versions => same operand categories and same 'takes an operand', except:
NEIGHBOUR_EXCEPTIONS = {("LOAD_FAST", (1, 3)), ("STORE_FAST", (1, 3)),            # 1.3: index co_varnames, not names
                        ("LIST_APPEND", (2, 7)), ("LIST_APPEND", (3, 0)), ("LIST_APPEND", (3, 1)),   # operand since 2.7 / 3.1
                        ("SET_ADD", (3, 0)), ("SET_ADD", (3, 1)),
                        ("RERAISE", (3, 10))}                                       # operand (lasti flag) since 3.10


def cpython_chain(tabs):
    """[(version tuple, table name)] of the CPython tables in version order"""
    return sorted((tuple(m.version_tuple[:2]), n) for n, m in tabs.items()
                  if getattr(m, "version_tuple", None) and not n.endswith("pypy") and not n.endswith("graal"))


def neighbour_diffs(tabs, name):
    """category / takes-operand differences between table `name` and the tables next to it (for PyPy: the CPython
    table of the same version)"""
    opc = tabs[name]
    vt = tuple(opc.version_tuple[:2])
    chain = cpython_chain(tabs)
    if name.endswith("pypy") or name.endswith("graal"):
        others = [n for v, n in chain if v == vt]
        # ... and the PyPy tables of the neighbouring versions (PyPy-only opcodes have no CPython counterpart)
        pchain = sorted((tuple(m.version_tuple[:2]), n) for n, m in tabs.items() if n.endswith("pypy") and getattr(m, "version_tuple", None))
        idx = [i for i, (v, n) in enumerate(pchain) if n == name]
        if idx:
            others += [pchain[j][1] for j in (idx[0] - 1, idx[0] + 1) if 0 <= j < len(pchain) and pchain[j][0][0] == vt[0]]
    else:
        idx = [i for i, (v, n) in enumerate(chain) if n == name]
        if not idx:
            return []
        i = idx[0]
        others = [chain[j][1] for j in (i - 1, i + 1) if 0 <= j < len(chain) and (chain[j][0][0] == vt[0] or vt in ((2, 7), (3, 0)))]
    out = []
    for other in others:
        pm = tabs[other]
        ovt = tuple(pm.version_tuple[:2])
        for n, num in sorted(opc.opmap.items()):
            if n not in pm.opmap or n.startswith("<"):
                continue
            if (n, max(vt, ovt)) in NEIGHBOUR_EXCEPTIONS or (n, min(vt, ovt)) in NEIGHBOUR_EXCEPTIONS and ovt[0] != vt[0]:
                continue
            if (num >= opc.HAVE_ARGUMENT) != (pm.opmap[n] >= pm.HAVE_ARGUMENT):
                out.append((n, "takes-an-operand", num >= opc.HAVE_ARGUMENT, other))
            for cat in CATS:
                a, b = num in getattr(opc, cat), pm.opmap[n] in getattr(pm, cat)
                if a != b:
                    out.append((n, cat, a, other))
    return out


class C09:
    id = "C09"
    rule = ("enumerated: every distinct table module in xdis.op_imports x 256 opcode numbers x 7 category sets; "
            "differential against the `opcode` module of CPython 2.7 / 3.6-3.13 (opmap below 256 modulo '+'->'_', "
            "HAVE_ARGUMENT, EXTENDED_ARG, hasjrel/hasjabs/hasconst/hasname/haslocal/hasfree/hascompare); intrinsic "
            "invariants for all tables (name<->number bijection, categorised => takes operand and defined, "
            "hasjrel & hasjabs disjoint, EXTENDED_ARG_SHIFT 16 before 3.6 / 8 after); corpus validity for versions "
            "without an interpreter (every real file decodes: tiles, jumps land on instruction starts, table "
            "indices in range); Hypothesis probes (table, opcode) through make_std_api; non-trivial = defined "
            "opcode of a table; distinct = (table, opcode)")
    assumptions = ["CPython's opcode module is ground truth for its version",
                   "tables of versions with no interpreter are only checked for internal consistency and against "
                   "the historical corpus files, and for 'an opcode of the same name has the same operand category as in the "
                   "CPython of its family (2.7 for 1.x-2.6, 3.6 for 3.0-3.5)'; LOAD_FAST/STORE_FAST before 1.3 excepted"]
    exhaustive = {"quick": True, "thorough": True}
    budgets = {"quick": {"shards": 8, "examples": 2000, "seconds": 70},
               "thorough": {"shards": 16, "examples": 5000, "seconds": 600}}
    minimise = False

    def setup(self, ctx):
        self.x = rw.xd()
        self.tabs = tables(self.x)

    def strategy(self, ctx):
        keys = sorted(k for k in self.x.op_imports.op_imports if isinstance(k, str))
        return st.tuples(st.sampled_from(keys), st.integers(0, 255)).map(lambda p: {"t": "probe", "key": p[0], "op": p[1]})

    def fixed_cases(self, ctx):
        for name in sorted(self.tabs):
            yield {"t": "table", "name": name}
        for p in pd.corpus_files():
            yield {"t": "corpus", "path": p}
        yield {"t": "keys"}
        for vt, name in cpython_chain(self.tabs):
            if vt != (1, 2):        # 1.2 shares its magic number with 1.1 and has no release name of its own (see C06)
                yield {"t": "patchlevel", "major": vt[0], "minor": vt[1]}

    def ref_tables(self, ctx, v):
        key = ("optab", v)
        if key not in ctx.cache:
            ctx.cache[key] = ctx.pool.ref(v).call("opcode_tables")
        return ctx.cache[key]

    def judge(self, case, ctx):
        res = Result()
        t = case.get("t")
        res.classes = ["kind:%s" % t]
        if t == "table":
            return self.judge_table(case, ctx, res)
        if t == "corpus":
            return self.judge_corpus(case, ctx, res)
        if t == "probe":
            return self.judge_probe(case, ctx, res)
        if t == "patchlevel":
            return self.judge_patchlevel(case, ctx, res)
        if t == "keys":
            # every key of the version -> table registry names the table of that version and flavour
            import re
            n = 0
            for key, mod in sorted(self.x.op_imports.op_imports.items(), key=lambda kv: str(kv[0])):
                if not isinstance(key, str):
                    continue
                m = re.match(r"^(\d)\.(\d+)", key)
                if not m:
                    continue
                n += 1
                kvt = (int(m.group(1)), int(m.group(2)))
                mname = mod.__name__.split(".")[-1]
                if tuple(mod.version_tuple[:2]) != kvt:
                    res.fail("C09|registry-key|version|%s" % key, "op_imports[%r] is %s, the table of %s" % (key, mname, mod.version_tuple))
                if not re.match(r"^\d\.\d+(pypy|Graal)?$", key):
                    continue        # (patch-level PyPy names such as 3.9.10pypy stand for releases that wrote CPython's magic)
                flavour = "pypy" if key.lower().endswith("pypy") else ("graal" if key.lower().endswith("graal") else "")
                mflav = "pypy" if mname.endswith("pypy") else ("graal" if mname.endswith("graal") else "")
                if flavour != mflav and not (flavour == "graal" and mflav == ""):
                    res.fail("C09|registry-key|flavour|%s" % key, "op_imports[%r] is %s: a %s key on a %s table" % (key, mname, flavour or "CPython", mflav or "CPython"))
            res.evals = n
            res.nt_keys = [["keys"]]
            res.sample = {"kind": "registry keys", "keys": n}
            return res
        res.reject = "malformed-case"
        return res

    # ------------------------------------------------------------------
    def judge_patchlevel(self, case, ctx, res):
        """whatever the patch level or release stage asked for - listed or not - the table is the one of major.minor"""
        try:
            vt = (int(case["major"]), int(case["minor"]))
        except Exception:
            res.reject = "malformed-case"
            return res
        x = self.x
        want = [n for v, n in cpython_chain(self.tabs) if v == vt]
        if not want:
            res.reject = "no-such-table"
            return res
        want = self.tabs[want[0]]
        n = 0
        for patch in (0, 1, 2, 9, 10, 12, 17, 19, 25, 99):
            for vi in ((vt[0], vt[1], patch), (vt[0], vt[1], patch, "final", 0), (vt[0], vt[1], patch, "candidate", 1)):
                n += 1
                try:
                    got = x.op_imports.get_opcode_module(vi, "")
                except Exception as e:
                    if len(vi) > 3 and vi[3] != "final":
                        continue        # release stages the tables do not list may be refused
                    res.fail("C09|patchlevel|raised|%s" % type(e).__name__, "get_opcode_module(%r) raised %s: %s" % (vi, type(e).__name__, e))
                    continue
                if tuple(got.version_tuple[:2]) != vt or got.opmap != want.opmap:
                    res.fail("C09|patchlevel|wrong-table|%d.%d" % vt, "get_opcode_module(%r) gives the table of %s, not of %d.%d" % (
                        vi, got.version_tuple, vt[0], vt[1]))
                    break
        if vt[1] < 10:
            # the historic float spelling of a version (2.4, 3.8): still accepted
            for variant in ("", "pypy"):
                n += 1
                try:
                    got = x.op_imports.get_opcode_module(float("%d.%d" % vt), variant)
                except Exception:
                    continue
                if tuple(got.version_tuple[:2]) != vt:
                    res.fail("C09|patchlevel|float-version|%d.%d" % vt, "get_opcode_module(%r, %r) gives the table of %s" % (
                        float("%d.%d" % vt), variant, got.version_tuple))
        res.evals = n
        res.nt_keys = [["patchlevel", vt[0], vt[1]]]
        res.classes.append("patchlevel")
        res.sample = {"kind": "patch levels", "version": "%d.%d" % vt, "asked": n}
        return res

    # ------------------------------------------------------------------
    def judge_table(self, case, ctx, res):
        name = case["name"]
        opc = self.tabs.get(name)
        if opc is None:
            res.reject = "no-such-table"
            return res
        vt = tuple(opc.version_tuple[:2]) if getattr(opc, "version_tuple", None) else None
        if vt is None:
            res.reject = "base-table"
            return res
        vs = "%d.%d" % vt
        is_variant = name.endswith("pypy") or name.endswith("graal")
        tag = name
        defined = {}
        for n, num in opc.opmap.items():
            defined.setdefault(num, []).append(n)
        res.evals = 256 * (len(CATS) + 1)
        res.nt_keys = [[name, num] for num in sorted(defined) if num < 256]
        res.sample = {"table": name, "version": vs, "defined_opcodes": len(defined)}
        # ---- intrinsic invariants
        for num, names in sorted(defined.items()):
            if len(set(norm(n) for n in names)) > 1:
                res.fail("C09|%s|bijection|two-names-one-number" % tag, "%s: opcode %d has names %s" % (name, num, names))
            if num < 256 and norm(opc.opname[num]) not in [norm(n) for n in names]:
                res.fail("C09|%s|bijection|opname-opmap" % tag, "%s: opname[%d] = %r but opmap names %s" % (name, num, opc.opname[num], names))
        for num in range(256):
            nm = opc.opname[num]
            if not nm.startswith("<") and opc.opmap.get(nm, opc.opmap.get(nm.replace("_", "+"))) != num:
                if norm(nm) not in [norm(n) for n in defined.get(num, [])]:
                    res.fail("C09|%s|bijection|opname-without-opmap" % tag, "%s: opname[%d] = %r is not in opmap" % (name, num, nm))
        hasarg = set(getattr(opc, "hasarg", ()) or ())
        ref = None
        if vs in ALL_VERSIONS and not is_variant:
            ref = self.ref_tables(ctx, vs)
        for cat in CATS:
            for num in getattr(opc, cat):
                takes = (num >= opc.HAVE_ARGUMENT) or (num in hasarg)
                same_gap = ref is not None and num in ref.get(cat, [])
                if not takes and not same_gap:
                    res.fail("C09|%s|categorised-without-operand|%s" % (tag, cat), "%s: opcode %d (%s) is in %s but below HAVE_ARGUMENT" % (
                        name, num, opc.opname[num], cat))
                if num not in defined and not same_gap:
                    res.fail("C09|%s|categorised-undefined|%s" % (tag, cat), "%s: %s lists undefined opcode %d" % (name, cat, num))
        # the category LISTS (hasjrel ...) and the SETS the disassembler really consults (JREL_OPS ...) say the same
        for lst, st_ in (("hasjrel", "JREL_OPS"), ("hasjabs", "JABS_OPS"), ("hasconst", "CONST_OPS"), ("hasname", "NAME_OPS"),
                         ("haslocal", "LOCAL_OPS"), ("hasfree", "FREE_OPS"), ("hascompare", "COMPARE_OPS"), ("hasnargs", "NARGS_OPS"),
                         ("hasvargs", "VARGS_OPS"), ("hasstore", "STORE_OPS"), ("nofollow", "NOFOLLOW")):
            if hasattr(opc, lst) and hasattr(opc, st_):
                a, b = set(getattr(opc, lst)), set(getattr(opc, st_))
                if a != b:
                    res.fail("C09|%s|list-vs-set|%s" % (tag, lst), "%s: %s and %s differ: only in the list %s, only in the set %s" % (
                        name, lst, st_, [(n_, opc.opname[n_]) for n_ in sorted(a - b)][:5], [(n_, opc.opname[n_]) for n_ in sorted(b - a)][:5]))
        jset = set(getattr(opc, "JUMP_OPS", ())) if hasattr(opc, "JUMP_OPS") else None
        if jset is not None and jset != set(opc.hasjrel) | set(opc.hasjabs):
            res.fail("C09|%s|list-vs-set|JUMP_OPS" % tag, "%s: JUMP_OPS is not hasjrel + hasjabs: %s" % (
                name, sorted(jset ^ (set(opc.hasjrel) | set(opc.hasjabs)))[:6]))
        both = set(opc.hasjrel) & set(opc.hasjabs)
        if both:
            res.fail("C09|%s|jrel-and-jabs" % tag, "%s: opcodes %s are both relative and absolute jumps" % (name, sorted(both)))
        if hasattr(opc, "EXTENDED_ARG"):
            shift = getattr(opc, "EXTENDED_ARG_SHIFT", None)
            want = 16 if vt < (3, 6) else 8
            if shift != want:
                res.fail("C09|%s|EXTENDED_ARG_SHIFT" % tag, "%s: EXTENDED_ARG_SHIFT = %r, expected %d" % (name, shift, want))
            if opc.opname[opc.EXTENDED_ARG] != "EXTENDED_ARG":
                res.fail("C09|%s|EXTENDED_ARG-number" % tag, "%s: EXTENDED_ARG = %d is %s" % (name, opc.EXTENDED_ARG, opc.opname[opc.EXTENDED_ARG]))
        elif vt >= (2, 0):
            res.fail("C09|%s|EXTENDED_ARG-missing" % tag, "%s has no EXTENDED_ARG" % name)
        # ---- differential
        if ref is not None:
            res.classes.append("differential:" + vs)
            rmap = dict((norm(n), num) for n, num in ref["opmap"].items() if num < 256)
            xmap = dict((norm(n), num) for n, num in opc.opmap.items() if num < 256)
            for n in sorted(set(rmap) | set(xmap)):
                if rmap.get(n) != xmap.get(n):
                    res.fail("C09|%s|opmap|%s" % (tag, n), "%s: CPython %s has %s = %s, xdis %s" % (name, vs, n, rmap.get(n), xmap.get(n)))
            for num in range(256):
                rn, xn = ref["opname"][num], opc.opname[num]
                if norm(rn) != norm(xn) and not (rn.startswith("<") and xn.startswith("<")):
                    res.fail("C09|%s|opname|%d" % (tag, num), "%s: opname[%d]: CPython %r, xdis %r" % (name, num, rn, xn))
            if ref["HAVE_ARGUMENT"] != opc.HAVE_ARGUMENT:
                res.fail("C09|%s|HAVE_ARGUMENT" % tag, "%s: HAVE_ARGUMENT CPython %d, xdis %d" % (name, ref["HAVE_ARGUMENT"], opc.HAVE_ARGUMENT))
            if ref["EXTENDED_ARG"] != getattr(opc, "EXTENDED_ARG", None):
                res.fail("C09|%s|EXTENDED_ARG" % tag, "%s: EXTENDED_ARG CPython %d, xdis %s" % (name, ref["EXTENDED_ARG"], getattr(opc, "EXTENDED_ARG", None)))
            for cat in CATS:
                r = set(n for n in ref.get(cat, []) if n < 256)
                xs = set(n for n in getattr(opc, cat) if n < 256)
                if r != xs:
                    res.fail("C09|%s|category|%s" % (tag, cat), "%s: %s: CPython-only %s, xdis-only %s" % (
                        name, cat, [(n, ref["opname"][n]) for n in sorted(r - xs)], [(n, opc.opname[n]) for n in sorted(xs - r)]))
        else:
            res.classes.append("intrinsic-only")
            fam = family_reference(vt)
            if fam:
                res.classes.append("family-consistency:" + fam)
                for n, cat, a, b in family_consistency(name, opc, self.ref_tables(ctx, fam), CATS):
                    res.fail("C09|%s|family-category|%s|%s" % (tag, cat, n), "%s: %s %s %s, but CPython %s (same opcode name, same family) %s" % (
                        name, n, "is in" if a else "is not in", cat, fam, "has it there" if b else "does not"))
            if vt < (3, 6) or is_variant:
                res.classes.append("history+neighbours")
                for n, cat, a, other in neighbour_diffs(self.tabs, name):
                    res.fail("C09|%s|neighbour-category|%s|%s" % (tag, cat, n), "%s: %s %s %s, unlike the same opcode in %s" % (
                        name, n, "has" if a else "lacks", cat, other))
                for n, cat, lo, hi in CATEGORY_HISTORY:
                    if lo <= vt <= hi and n in opc.opmap:
                        for c2 in CATS:
                            if (opc.opmap[n] in getattr(opc, c2)) != (c2 == cat):
                                res.fail("C09|%s|category-history|%s|%s" % (tag, n, c2), "%s: %s %s %s; Python %d.%d's dis.py declares it in %s only" % (
                                    name, n, "is in" if c2 != cat else "is not in", c2, vt[0], vt[1], cat))
                if (1, 5) <= vt < (3, 6):
                    for n, ranges in sorted(HISTORY.items()):
                        want = any(lo <= vt <= hi for lo, hi in ranges)
                        have = n in opc.opmap
                        if want != have:
                            res.fail("C09|%s|history|%s" % (tag, n), "%s: %s %s, but CPython %d.%d %s (dis documentation / HISTORY: in %s)" % (
                                name, n, "is defined" if have else "is not defined", vt[0], vt[1],
                                "had it" if want else "did not have it",
                                ", ".join("%d.%d-%d.%d" % (lo + hi) for lo, hi in ranges)))
        return res

    # ------------------------------------------------------------------
    def judge_corpus(self, case, ctx, res):
        import os
        path = os.path.join(pd.CORPUS_DIR, case["path"])
        if not os.path.exists(path):
            res.reject = "missing-corpus-file"
            return res
        try:
            d = rw.x_dump_file(path=path, want_dis=True, max_code=(1500 if ctx.tier == "quick" else 6000))
        except Exception as e:
            res.reject = "corpus-file-does-not-load(C01/C12 subject):%s" % type(e).__name__
            return res
        vs = ".".join(str(p) for p in d["header"]["version"][:2]) + ("pypy" if d["header"]["is_pypy"] else "")
        res.classes.append("corpus-version:" + vs)
        res.sample = {"corpus_file": case["path"], "version": vs, "code_objects": len(d["dis"])}
        res.evals = len(d["dis"])
        keys = []
        for i, co in enumerate(d["dis"]):
            if "skipped" in co:
                continue
            if "instrs_err" in co:
                res.fail("C09|corpus|%s|decode-raised|%s" % (vs, co["instrs_err"].split(":")[0]),
                         "%s co%d: decoding with the %s table raised %s" % (case["path"], i, vs, co["instrs_err"]))
                continue
            ins = co["instrs"]
            n = co["codelen"]
            end = ins[-1]["o"] + (2 if tuple(d["header"]["version"][:2]) >= (3, 6) else (3 if ins[-1]["ha"] else 1)) if ins else 0
            if end != n:
                res.fail("C09|corpus|%s|tiling" % vs, "%s co%d: stream ends at %d, code is %d bytes" % (case["path"], i, end, n))
            starts = set(x_["o"] for x_ in ins) | {n}
            for x_ in ins:
                if x_["k"] in ("jrel", "jabs") and isinstance(x_["v"], int) and x_["v"] not in starts:
                    res.fail("C09|corpus|%s|jump-into-instruction|%s" % (vs, x_["n"]), "%s co%d: %s at %d jumps to %d, not an instruction start" % (
                        case["path"], i, x_["n"], x_["o"], x_["v"]))
                    break
            keys.append([case["path"], i])
        res.nt_keys = keys
        return res

    # ------------------------------------------------------------------
    def judge_probe(self, case, ctx, res):
        """std facade: make_std_api(version) must expose exactly the table of that version"""
        x = self.x
        key, op = case["key"], case["op"]
        opc = x.op_imports.op_imports.get(key)
        if opc is None or not (0 <= op < 256):
            res.reject = "no-such-table"
            return res
        vt = getattr(opc, "version_tuple", None)
        if not vt:
            res.reject = "base-table"
            return res
        variant = "pypy" if key.endswith("pypy") else None
        try:
            api = x.std.make_std_api(tuple(vt[:2]), variant)
        except Exception as e:
            res.reject = "make_std_api-unavailable:%s" % type(e).__name__
            return res
        res.key = [key, op]
        res.nontrivial = not opc.opname[op].startswith("<")
        tab2 = api.opc
        if api.opname[op] != tab2.opname[op] or (api.opname[op] in api.opmap and api.opmap[api.opname[op]] != op):
            res.fail("C09|std-facade|opname", "make_std_api(%s).opname[%d] = %r, table %r" % (vt, op, api.opname[op], tab2.opname[op]))
        for cat in ("hasconst", "hasname"):
            if (op in getattr(api, cat)) != (op in getattr(tab2, cat)):
                res.fail("C09|std-facade|%s" % cat, "make_std_api(%s).%s disagrees with its table on opcode %d" % (vt, cat, op))
        if api.HAVE_ARGUMENT != tab2.HAVE_ARGUMENT or api.EXTENDED_ARG != tab2.EXTENDED_ARG:
            res.fail("C09|std-facade|thresholds", "make_std_api(%s) HAVE_ARGUMENT/EXTENDED_ARG differ from table" % (vt,))
        if tuple(tab2.version_tuple[:2]) != tuple(vt[:2]):
            res.fail("C09|std-facade|wrong-table", "make_std_api(%s) bound table of %s" % (vt, tab2.version_tuple))
        return res


PROP = C09()
