"""C15 - stack effects equal the interpreter's for every opcode and operand."""
from hypothesis import strategies as st

from vf import refworker as rw
from vf.run import Result

VERSIONS = ["3.6", "3.7", "3.8", "3.9", "3.10", "3.11", "3.12", "3.13"]
# dis.stack_effect computes in C ints: operands are kept below 2^30 so that no reference value is an
# artefact of 32-bit overflow (e.g. BUILD_MAP: 1 - 2 * oparg)
BOUNDS = [2 ** 8 - 1, 2 ** 8, 2 ** 8 + 1, 2 ** 16 - 1, 2 ** 16, 2 ** 16 + 1, 2 ** 24 - 1, 2 ** 24, 2 ** 24 + 1, 2 ** 30 - 1]


FAMILY_VERSIONS = ["3.0", "3.1", "3.2", "3.3", "3.4", "3.5"]
# same name, other meaning than in 3.6: MAKE_FUNCTION (flags instead of counts since 3.6), EXTENDED_ARG; BUILD_MAP took a
# size hint up to 3.4; 3.0 / 3.1 had the 2.6-style LIST_APPEND / SET_ADD and (per xdis's tables, undecided here) IMPORT_NAME
# BUILD_MAP_UNPACK_WITH_CALL: in 3.5 only the low byte of the operand counts the mappings (the second byte locates the callable)
FAMILY_CHANGED = {"*": ("MAKE_FUNCTION", "EXTENDED_ARG", "BUILD_MAP_UNPACK_WITH_CALL"), "3.4": ("BUILD_MAP",), "3.3": ("BUILD_MAP",), "3.2": ("BUILD_MAP",),
                  "3.1": ("BUILD_MAP", "IMPORT_NAME"), "3.0": ("BUILD_MAP", "IMPORT_NAME", "LIST_APPEND", "SET_ADD")}


class C15:
    id = "C15"
    rule = ("enumerated per version 3.6-3.13: every opcode number 0..255 and every pseudo-instruction number >= 256 the version's opmap lists x operands {0..1024} (quick) / {0..65535} "
            "(thorough) plus the EXTENDED_ARG boundaries 2^8, 2^16, 2^24 (+-1) and 2^30-1, plus Hypothesis draws below "
            "2^30 (dis.stack_effect computes in C ints; larger operands overflow in the reference); oracle: xstack_effect(op, opc, arg) == make_std_api(v).stack_effect(op, arg) == that CPython's "
            "dis.stack_effect(op, arg) (jump unspecified); pairs CPython rejects with ValueError are skipped; "
            "non-trivial = (version, operand-taking opcode, operand > 2) pair CPython accepts; distinct = the pair")
    assumptions = ["dis.stack_effect of the matching CPython is ground truth",
                   "2.7 has no dis.stack_effect: no reference, not covered"]
    exhaustive = {"quick": False, "thorough": True}
    budgets = {"quick": {"shards": 12, "examples": 300, "seconds": 70},
               "thorough": {"shards": 16, "examples": 20000, "seconds": 1500}}
    minimise = False

    def setup(self, ctx):
        self.x = rw.xd()
        self.opcs = {}
        self.pypy_opcs = {}
        self.apis = {}
        for v in VERSIONS:
            vt = tuple(int(p) for p in v.split("."))
            self.opcs[v] = self.x.disasm.get_opcode(vt, False)
            try:
                self.pypy_opcs[v] = self.x.disasm.get_opcode(vt, True)
            except Exception:
                self.pypy_opcs[v] = None
            try:
                self.apis[v] = self.x.std.make_std_api(vt, None)
            except Exception:
                self.apis[v] = None
        # every opcode number of the version: 0..255 plus the pseudo-instructions (>= 256) that 3.12+ list in opmap
        self.all_ops = {}
        self.takes_arg = {}
        for v in VERSIONS:
            ref = ctx.pool.ref(v).call("opcode_tables")
            self.all_ops[v] = sorted(set(range(256)) | set(ref["opmap"].values()))
            self.takes_arg[v] = set(ref["hasarg"]) if "hasarg" in ref else set(range(ref["HAVE_ARGUMENT"], 256))

    def strategy(self, ctx):
        return st.tuples(st.sampled_from(VERSIONS), st.one_of(st.integers(0, 255), st.integers(256, 270)),
                         st.one_of(st.integers(0, 2 ** 30 - 1), st.integers(0, 70000), st.sampled_from(BOUNDS))).map(
            lambda p: {"t": "pair", "v": p[0], "op": p[1], "arg": p[2]})

    def fixed_cases(self, ctx):
        hi = 1025 if ctx.tier == "quick" else 65536
        step = 1025 if ctx.tier == "quick" else 8192
        for v in VERSIONS:
            for op in self.all_ops[v]:
                for lo in range(0, hi, step):
                    yield {"t": "range", "v": v, "op": op, "lo": lo, "hi": min(hi, lo + step)}
                yield {"t": "bounds", "v": v, "op": op}
        from vf.pool import HOSTS
        for h in HOSTS:
            for v in VERSIONS:
                yield {"t": "host", "v": v, "host": h, "op": 0}
        # 3.0-3.5 have no interpreter here: an opcode that keeps its NAME up to 3.6 keeps its stack effect (the few
        # whose meaning changed are listed), so CPython 3.6 decides those
        for v in FAMILY_VERSIONS:
            yield {"t": "family", "v": v, "op": 0}
        # PyPy's tables: an opcode PyPy shares with the CPython of its level (same name; PyPy renumbers a few) has CPython's effect
        for v in ("3.6", "3.7", "3.8", "3.9", "3.10"):
            yield {"t": "pypy", "v": v, "op": 0}

    def judge(self, case, ctx):
        res = Result()
        v, op = case.get("v"), case.get("op")
        if case.get("t") == "family" and v in FAMILY_VERSIONS:
            return self.judge_family(case, ctx, res)
        if v not in VERSIONS or not isinstance(op, int) or not (0 <= op < 512):
            res.reject = "malformed-case"
            return res
        opc = self.opcs[v]
        name = opc.opname[op] if op < len(opc.opname) else "<%d>" % op
        t = case.get("t")
        w = ctx.pool.ref(v)
        if t == "host":
            return self.judge_host(case, ctx, res)
        if t == "family":
            return self.judge_family(case, ctx, res)
        if t == "pypy" and v in VERSIONS:
            return self.judge_family(case, ctx, res, pypy=True)
        if t == "range":
            lo, hi = case["lo"], case["hi"]
            r = w.call("stack_effect", ranges=[[op, lo, hi]], pairs=[[op, None]])
            refs = r["ranges"][0]
            args = list(range(lo, hi))
            noarg = r["pairs"][0]
        elif t == "bounds":
            r = w.call("stack_effect", ranges=[], pairs=[[op, a] for a in BOUNDS])
            refs, args, noarg = r["pairs"], BOUNDS, None
        elif t == "pair":
            r = w.call("stack_effect", ranges=[], pairs=[[op, case["arg"]]])
            refs, args, noarg = r["pairs"], [case["arg"]], None
        else:
            res.reject = "malformed-case"
            return res
        keys = []
        n = 0
        bad = None
        xse = self.x.cross_dis.xstack_effect
        api = self.apis[v]
        pypy = self.pypy_opcs.get(v)
        for a, exp in zip(args, refs):
            if exp is None:
                continue
            n += 1
            if a > 2:
                keys.append([v, op, a])
            if pypy is not None:
                # the PyPy table of the same version is asked first: an answer for one table must not colour the other's
                try:
                    xse(op, pypy, a)
                except Exception:
                    pass
            try:
                got = xse(op, opc, a)
            except Exception as e:
                got = "raised %s" % type(e).__name__
            got2 = None
            if api is not None:
                try:
                    got2 = api.stack_effect(op, a)
                except Exception as e:
                    got2 = "raised %s" % type(e).__name__
            if got != exp or (api is not None and got2 != exp):
                if bad is None:
                    bad = (a, exp, got, got2)
        if noarg is not None:
            # opcode that takes no operand: CPython answers stack_effect(op)
            n += 1
            try:
                got = xse(op, opc)
            except Exception as e:
                got = "raised %s" % type(e).__name__
            if got == noarg and op not in self.takes_arg[v]:
                try:
                    got = xse(op, opc, None)            # the operand an operand-less instruction carries: Instruction.arg is None
                except Exception as e:
                    got = "raised %s with operand None" % type(e).__name__
            if got != noarg:
                res.fail("C15|%s|%s|no-operand" % (v, name), "%s %s: CPython stack_effect(%d) = %s, xdis %s" % (v, name, op, noarg, got))
        if bad is not None:
            a, exp, got, got2 = bad
            res.fail("C15|%s|%s|%s" % (v, name, "xstack_effect" if got != exp else "std-facade"),
                     "%s %s: CPython stack_effect(%d, %d) = %s, xstack_effect %s, make_std_api().stack_effect %s" % (
                         v, name, op, a, exp, got, got2))
        res.evals = max(n, 1)
        if n == 0:
            res.classes = ["cpython-rejects-all"]
        else:
            res.classes = ["version:" + v, "kind:" + t]
        res.nt_keys = keys if len(keys) < 400 else keys[:400] + [[v, op, "range", case.get("lo"), len(keys)]]
        if keys:
            res.sample = {"version": v, "opcode": op, "opname": name, "operands": "%s..%s" % (args[0], args[-1]),
                          "accepted_by_cpython": n}
        return res


    def judge_family(self, case, ctx, res, pypy=False):
        v = case["v"]
        vt = tuple(int(p) for p in v.split("."))
        try:
            opc = self.x.disasm.get_opcode(vt, pypy)
        except Exception:
            res.reject = "no-such-table"
            return res
        ref = ctx.pool.ref(v if pypy else "3.6")
        t36 = ref.call("opcode_tables")
        xse = self.x.cross_dis.xstack_effect
        args = list(range(0, 300)) + [511, 512, 0x101, 0x203, 0xFFFF, 0x10001]
        n = 0
        keys = []
        for name, num in sorted(opc.opmap.items()):
            if pypy:
                # (PyPy 3.6 / 3.7 give CALL_FUNCTION_KW an effect of their own)
                if name.startswith("<") or name not in t36["opmap"] or name in ("CALL_FUNCTION_KW", "EXTENDED_ARG"):
                    continue
            elif name.startswith("<") or name not in t36["opmap"] or name in FAMILY_CHANGED.get("*", ()) or name in FAMILY_CHANGED.get(v, ()):
                continue
            exps = ref.call("stack_effect", ranges=[], pairs=[[t36["opmap"][name], a] for a in args])["pairs"]
            for a, exp in zip(args, exps):
                if exp is None:
                    continue
                n += 1
                try:
                    got = xse(num, opc, a)
                except Exception as e:
                    got = "raised %s" % type(e).__name__
                if got != exp:
                    res.fail("C15|%s%s|%s|family" % (v, "pypy" if pypy else "", name), "%s%s %s operand %d: xstack_effect %s; CPython %s, where the opcode has the same name and meaning, says %s" % (
                        v, " (PyPy table)" if pypy else "", name, a, got, v if pypy else "3.6", exp))
                    break
            keys.append([v, name])
        res.evals = max(1, n)
        res.nt_keys = keys
        res.classes = ["version:" + v, "kind:family-3.6"]
        res.sample = {"version": v, "oracle": "CPython 3.6 dis.stack_effect for same-named opcodes", "opcodes": len(keys)}
        return res

    def judge_host(self, case, ctx, res):
        """the library runs on several Python versions: the same (opcode, operand) gives the same effect on each"""
        from vf.pool import HOSTS
        v, h = case["v"], case.get("host")
        if h not in HOSTS:
            res.reject = "malformed-case"
            return res
        opc = self.opcs[v]
        ops = self.all_ops[v]
        args = list(range(0, 40)) + [255, 256, 257, 0x1FF, 0xFFF0, 0xFFFF, 0x10000, 0x10003] + BOUNDS
        r = ctx.pool.host(h).call("x_stack_effect", version=[int(p) for p in v.split(".")], ops=ops, args=args)
        xse = self.x.cross_dis.xstack_effect
        n = 0
        for op, row in zip(ops, r["rows"]):
            for a, got in zip(args, row):
                try:
                    here = xse(op, opc, a)
                except Exception as e:
                    here = "raised %s" % type(e).__name__
                n += 1
                if here != got:
                    name = opc.opname[op] if op < len(opc.opname) else "<%d>" % op
                    res.fail("C15|%s|%s|host-dependent" % (v, name), "%s %s operand %d: xstack_effect is %s when xdis runs on Python %s, "
                             "%s on the driver's 3.12 (which agrees with CPython's dis.stack_effect in the sweep)" % (v, name, a, got, h, here))
                    break
        res.evals = n
        res.classes = ["version:" + v, "kind:host", "host:" + h]
        res.nt_keys = [[v, "host", h]]
        res.sample = {"version": v, "xdis_host": h, "pairs": n}
        return res


PROP = C15()
