"""C16 - native and portable code objects convert back and forth without loss."""
from hypothesis import strategies as st

from vf import refworker as rw
from vf.gen import prog as gp
from vf.pool import HOSTS
from vf.run import Result

REPL = [("co_name", ["t", rw.hx(b"renamed")]), ("co_firstlineno", ["i", "4242"]), ("co_flags", ["i", "67"]),
        ("co_stacksize", ["i", "99"]), ("co_filename", ["t", rw.hx(b"other.py")]),
        ("co_names", ["T", [["t", rw.hx(b"zz")]]]), ("co_consts", ["T", [["N"], ["i", "1"]]]),
        ("co_argcount", ["i", "0"]), ("co_code", ["y", "64005300"])]


class C16:
    id = "C16"
    rule = ("case = (host 3.8-3.13, G-PROG program, drawn replace() fields); inside a worker of that host every code "
            "object of the compiled program goes native -> codeType2Portable -> to_native(); oracle: portable class is "
            "the one for the host version, and the result equals the original attribute by attribute (every co_* data "
            "attribute incl. the real co_linetable/co_lnotab and co_exceptiontable, plus list(co_lines()) and "
            "list(co_positions())); replace(field=value) returns a different object with that field changed, others "
            "equal, original's dump unchanged; non-trivial = code object with non-empty line table (and, 3.11+, "
            "non-empty exception table somewhere in the program); distinct = (host, program)")
    assumptions = ["attribute-by-attribute equality is used because code.__eq__ ignores line tables on some versions"]
    budgets = {"quick": {"shards": 12, "examples": 160, "seconds": 70},
               "thorough": {"shards": 16, "examples": 2000, "seconds": 900}}

    def strategy(self, ctx):
        @st.composite
        def case(draw):
            h = draw(st.sampled_from(HOSTS))
            src = draw(gp.programs(h, size=draw(st.integers(2, 4))))
            repl = draw(st.lists(st.sampled_from(REPL), max_size=3, unique_by=lambda p: p[0]))
            return {"host": h, "src": src, "replace": [list(p) for p in repl]}
        return case()

    def strata(self, ctx):
        out = []
        for h in HOSTS:
            @st.composite
            def case(draw, h=h):
                src = draw(gp.programs(h, size=draw(st.integers(2, 4))))
                repl = draw(st.lists(st.sampled_from(REPL), max_size=3, unique_by=lambda p: p[0]))
                return {"host": h, "src": src, "replace": [list(p) for p in repl]}
            out.append(["host:" + h, case(), 1])
        return out

    def judge(self, case, ctx):
        res = Result()
        h = case.get("host")
        if h not in HOSTS or not isinstance(case.get("src"), str):
            res.reject = "malformed-case"
            return res
        r = ctx.pool.host(h).call("x_c16", src=case["src"], replace=case.get("replace", []))
        if "reject" in r:
            res.reject = "compiler-rejects:" + r["reject"].split(":")[0]
            return res
        for sig, msg in r["fails"]:
            res.fail("C16|%s|%s" % (h, sig), msg)
        codes = r["codes"]
        has_exc = any(c["exctable_len"] for c in codes)
        res.nontrivial = any(c["linetable_len"] for c in codes) and (has_exc or h in ("3.8", "3.9", "3.10"))
        res.key = [h, case["src"]]
        res.evals = max(1, len(codes))
        res.classes = ["host:" + h, "portable:" + r["portable_class"]] + (["exception-table"] if has_exc else []) + [
            "replace:" + f for f, _ in case.get("replace", [])]
        res.sample = {"host": h, "code_objects": len(codes), "source_head": case["src"][:200],
                      "replace": [f for f, _ in case.get("replace", [])]}
        return res


PROP = C16()
