"""C07 - results do not depend on the host Python or on which loader path is taken."""
import json
import os
import re

from hypothesis import strategies as st

from vf import canon as cn
from vf import progdiff as pd
from vf import refworker as rw
from vf.gen import prog as gp
from vf.gen import values as gv
from vf.pool import ALL_VERSIONS, HOSTS
from vf.run import Result

# (3.12+ names such as "<generic parameters of g>" contain spaces)
NATIVE_REPR = re.compile(r'<code object (.+?) at 0x[0-9a-f]+, file "(.*?)", line (\d+)>')
PORTABLE_REPR = re.compile(r'<Code\w+ code object (.+?) at 0x[0-9a-f]+, file (.*?)>, line (\d+)')


def _no_huge_ints(t):
    """integers above the hosts' int->str digit limit cannot be listed by any route (the host's own dis cannot either)"""
    k = t[0]
    if k == "i" and isinstance(t[1], str) and (t[1].startswith("0x") or t[1].startswith("-0x") or len(t[1]) > 4000):
        return ["i", "1234567890123456789012345"]
    if k == "=":
        return ["=", t[1], _no_huge_ints(t[2])]
    if k in ("T", "L", "S", "Z"):
        return [k, [_no_huge_ints(x) for x in t[1]]]
    if k == "D":
        return [k, [[_no_huge_ints(a), _no_huge_ints(b)] for a, b in t[1]]]
    return t


def _no_linebreaks(t):
    k = t[0]
    if k == "t":
        raw = bytes(b if b >= 0x20 and b != 0x7F else 0x78 for b in rw.unhx(t[1]))
        return ["t", rw.hx(raw)]
    if k == "=":
        return ["=", t[1], _no_linebreaks(t[2])]
    if k in ("T", "L", "S", "Z"):
        return [k, [_no_linebreaks(x) for x in t[1]]]
    if k == "D":
        return [k, [[_no_linebreaks(a), _no_linebreaks(b)] for a, b in t[1]]]
    return t


def norm_text(s):
    s = NATIVE_REPR.sub(lambda m: "<code %s file %s line %s>" % (m.group(1), m.group(2), m.group(3)), s)
    s = PORTABLE_REPR.sub(lambda m: "<code %s file %s line %s>" % (m.group(1), m.group(2), m.group(3)), s)
    s = re.sub(r"0x[0-9a-f]{6,}", "0xX", s)
    # repr() escapes a character or not depending on the host's Unicode database
    s = s.encode("ascii", "backslashreplace").decode("ascii")
    return s


def norm_listing(t):
    out = []
    skip_next_bracket = False
    for ln in t.split("\n"):
        if ln.startswith("# Disassembled from") or ln.startswith("# pydisasm version"):
            skip_next_bracket = True
            continue
        if skip_next_bracket and ln.startswith("# ["):
            continue
        skip_next_bracket = False
        ln = norm_text(ln)
        if "{" in ln or "frozenset(" in ln:
            ln = "".join(sorted(ln))      # element order of sets depends on the host's hash function
        out.append(ln)
    return "\n".join(out)


def norm_dis(dis):
    """instruction dumps with host-dependent text (addresses, set order) normalised"""
    out = []
    for c in dis:
        c2 = dict(c)
        if "instrs" in c:
            ins2 = []
            for i in c["instrs"]:
                i = dict(i)
                r = i.get("r")
                if isinstance(r, str):
                    r = norm_text(r)
                    if "{" in r or "frozenset(" in r:
                        r = "".join(sorted(r))
                    i["r"] = r
                ins2.append(i)
            c2["instrs"] = ins2
        c2.pop("instrs_tb", None)
        if isinstance(c2.get("instrs_gi"), dict) and "instrs" in c2["instrs_gi"]:
            c2["instrs_gi"] = norm_dis([{"instrs": c2["instrs_gi"]["instrs"]}])[0]["instrs"]
        for key_ in ("instrs_ret_classic", "instrs_ret_asm"):
            if isinstance(c2.get(key_), dict) and "instrs" in c2[key_]:
                c2[key_] = norm_dis([{"instrs": c2[key_]["instrs"]}])[0]["instrs"]
        if isinstance(c2.get("instrs_loi"), dict) and "instrs" in c2["instrs_loi"]:
            c2["instrs_loi"] = norm_dis([{"instrs": c2["instrs_loi"]["instrs"]}])[0]["instrs"]
        if "co_lines" in c2:
            # 3.11 does not merge adjacent equal-line ranges, 3.12+ and xdis do: compare per code unit
            c2["co_lines"] = sorted(pd.per_unit(c2["co_lines"]).items())
        out.append(c2)
    return out


class C07:
    id = "C07"
    rule = ("case = (bytecode file of version 2.7/3.6-3.13 from G-PROG / stdlib sample, or a corpus file) x a drawn "
            "set of (host, route) pairs out of hosts 3.8-3.13 x {load_module, portable unmarshaller on the payload, codeType2Portable of the native object}; "
            "always included: the file's own host with BOTH routes (native marshal fast path + native code object "
            "passed to Bytecode vs portable code object) when the version has a host; metamorphic oracle: canonical "
            "code tree, instruction streams (opcode, operand, argval, argrepr, jump-target flags, line starts, labels) "
            "and the normalised listing (format drawn from classic / bytes / extended; xasm names code objects after id() values and is not comparable) are identical for every pair; non-trivial = comparison with the "
            "native path on one side and the portable path on the other; distinct = (file, pair)")
    assumptions = ["normalised away: object addresses, the host banner, code-object repr spelling (native vs portable, "
                   "which the repo's own tests equate), element order inside set reprs (host hash function)"]
    budgets = {"quick": {"shards": 14, "examples": 22, "seconds": 85},
               "thorough": {"shards": 16, "examples": 500, "seconds": 1500}}

    def strata(self, ctx):
        max_size = 15000 if ctx.tier == "quick" else 80000
        out = []
        for v in ALL_VERSIONS:
            for k, w in (("prog", 2), ("stdlib", 1), ("values", 1)):
                @st.composite
                def case(draw, v=v, k=k):
                    extra = draw(st.lists(st.sampled_from(HOSTS), min_size=1, max_size=2, unique=True))
                    c = {"k": k, "v": v, "hosts": extra, "fmt": draw(st.sampled_from(["classic", "classic", "extended", "bytes"]))}
                    if k == "values":
                        # constants with a sharing plan, marshalled by the real interpreter (FLAG_REF / back-references
                        # on every object kind: what compilers emit only rarely)
                        c["values"] = draw(gv.shared_values(v.startswith("2.")))
                    elif k == "prog":
                        c["src"] = draw(gp.programs(v, size=draw(st.integers(2, 4))))
                    else:
                        c["path"] = draw(st.sampled_from(pd.stdlib_files(ctx, v, max_size)))
                    return c
                # files of versions that have a host get both loader routes: twice the weight
                out.append(["%s:%s" % (k, v), case(), w * (2 if v in HOSTS else 1)])
        return out

    def strategy(self, ctx):
        return st.one_of([s_ for _, s_, _ in self.strata(ctx)])

    def fixed_cases(self, ctx):
        # constants beyond 1 MiB (readers switch to chunked reads there): bytes and ASCII text, own host vs another
        for v, other in (("3.11", "3.12"), ("3.12", "3.9"), ("3.8", "3.13")):
            yield {"k": "values", "v": v, "hosts": [other], "fmt": "classic", "values": [], "big": (1 << 20) + 5}
        files = [p for p in pd.corpus_files() if "dropbox" not in p]
        step = 6 if ctx.tier == "quick" else 1
        for i, p in enumerate(files):
            m = re.match(r"bytecode_(\d\.\d+)/", p)
            # files of a version xdis can run on are always taken (their own host may use another loader path)
            if i % step == (ctx.seed % step) or (m and m.group(1) in HOSTS):
                yield {"k": "corpus", "path": p, "hosts": [HOSTS[i % len(HOSTS)], HOSTS[(i + 3) % len(HOSTS)]]}

    def judge(self, case, ctx):
        res = Result()
        k = case.get("k")
        hosts = [h for h in case.get("hosts", []) if h in HOSTS]
        if case.get("fmt", "classic") not in ("classic", "extended", "bytes") or hosts != list(case.get("hosts", [])):
            res.reject = "malformed-case"
            return res
        if k == "corpus":
            path = os.path.join(pd.CORPUS_DIR, case["path"])
            if not os.path.exists(path) or os.path.getsize(path) > (30000 if ctx.tier == "quick" else 300000):
                res.reject = "corpus-file-too-big-for-tier"
                return res
            data = open(path, "rb").read()
            label = case["path"]
            own = None
            m = re.match(r"bytecode_(\d\.\d+)/", case["path"])
            if m and m.group(1) in HOSTS:
                own = m.group(1)
        elif k in ("prog", "stdlib", "values") and case.get("v") in ALL_VERSIONS:
            v = case["v"]
            if k == "values":
                try:
                    vals = [gv.expand(t) for t in case["values"]]
                except Exception:
                    res.reject = "malformed-case"
                    return res
                vals = [_no_huge_ints(t) for t in vals]
                if case.get("big"):
                    nbig = int(case["big"])
                    if not (0 < nbig <= (3 << 20)):
                        res.reject = "malformed-case"
                        return res
                    blob = (b"0123456789abcdef" * (nbig // 16 + 1))[:nbig]
                    vals = [["y", rw.hx(blob)], ["t", rw.hx(blob[:nbig - 3])], ["i", "5"]]
                if v == "2.7":
                    # xdis prints Python 2 unicode constants unescaped; a raw line break inside one, together with
                    # the host-dependent element order of sets, moves text between listing lines (not C07's subject)
                    vals = [_no_linebreaks(t) for t in vals]
                ref = ctx.pool.ref(v).call("dumps_code", values=vals, mver=2 if v == "2.7" else 4)
                if "reject" not in ref:
                    ref["header"] = ctx.pool.ref(v).call("compile", src="pass", dis=False)["header"]
            else:
                ref = ctx.pool.ref(v).call("compile" if k == "prog" else "compile_file", dis=False,
                                           **({"src": case["src"]} if k == "prog" else {"path": case["path"]}))
            if "reject" in ref:
                res.reject = "compiler-rejects:" + ref["reject"].split(":")[0]
                return res
            data = rw.unhx(ref["header"]) + rw.unhx(ref["payload"])
            label = "%s:%s" % (v, case.get("path", "generated"))
            own = v if v in HOSTS else None
        else:
            res.reject = "malformed-case"
            return res
        pairs = []
        if own:
            pairs += [(own, "load_module"), (own, "portable"), (own, "native2portable")]
        for h in hosts:
            if (h, "load_module") not in pairs:
                pairs.append((h, "load_module"))
        if len(pairs) < 2:
            pairs.append(("3.12" if pairs[0][0] != "3.12" else "3.9", "load_module"))
        max_code = 2000 if ctx.tier == "quick" else 6000
        outs = []
        for h, route in pairs:
            r = ctx.pool.host(h).call_raw("x_c07", data=rw.hx(data), route=route, listing=(route == "load_module"),
                                          max_code=max_code, fmt=case.get("fmt", "classic"))
            outs.append((h, route, r))
        res.classes = ["file:" + (case.get("v") or label.split("/")[0])] + ["pair:%s/%s" % (h, r) for h, r, _ in outs]
        res.sample = {"file": label, "pairs": ["%s/%s" % (h, r) for h, r, _ in outs]}
        base_h, base_r, base = outs[0]
        if not base["ok"]:
            res.reject = "xdis-cannot-load-on-%s(C01's subject)" % base_h
            # ... unless another host CAN load it: then the outcome itself depends on the host
            for h, route, r in outs[1:]:
                if r["ok"]:
                    res.reject = None
                    res.fail("C07|load-outcome-differs", "%s: %s/%s raises (%s) but %s/%s loads" % (label, base_h, base_r, base["err"][:120], h, route))
                    break
            return res
        b = base["r"]
        nt = []
        for h, route, r in outs[1:]:
            tag = "%s/%s vs %s/%s" % (base_h, base_r, h, route)
            mixed = b["native"] != (r["r"]["native"] if r["ok"] else None)
            sigp = "native-vs-portable" if mixed else "host-vs-host"
            if not r["ok"]:
                res.fail("C07|%s|load-outcome-differs" % sigp, "%s: loads on %s/%s but %s/%s raises %s" % (label, base_h, base_r, h, route, r["err"][:160]))
                continue
            o = r["r"]
            if mixed:
                nt.append([label if k not in ("prog", "values") else (case.get("src") or case.get("values")), tag])
            d = cn.diff(b["tree"], o["tree"])
            if d:
                res.fail("C07|%s|tree|%s|%s|%s" % (sigp, cn.field_of(d[0]) or "const", pd.kshort(d[1]), pd.kshort(d[2])),
                         "%s: code tree differs (%s) at %s: %s vs %s" % (label, tag, d[0], d[1], d[2]))
            if b["header"] != o["header"]:
                res.fail("C07|%s|header" % sigp, "%s: header differs (%s): %s vs %s" % (label, tag, b["header"], o["header"]))
            bd, od = norm_dis(b["dis"]), norm_dis(o["dis"])
            if bd != od:
                what, msg = first_dis_diff(bd, od)
                res.fail("C07|%s|stream|%s" % (sigp, what), "%s: decoded instruction data differs (%s): %s" % (label, tag, msg))
            if "listing" in b and "listing" in o:
                la, lb = norm_listing(b["listing"]), norm_listing(o["listing"])
                if case.get("fmt") == "xasm":
                    # xasm names code objects after id(co_code) and emits them in an order that depends on those
                    # names: compare the sections as a multiset of lines with the generated names neutralised
                    la = "\n".join(sorted(re.sub(r"\w+_0xX(_\d+)?", "NAME", ln) for ln in la.split("\n")))
                    lb = "\n".join(sorted(re.sub(r"\w+_0xX(_\d+)?", "NAME", ln) for ln in lb.split("\n")))
                if la != lb:
                    a, c2 = la.split("\n"), lb.split("\n")
                    k2 = next((i for i in range(min(len(a), len(c2))) if a[i] != c2[i]), min(len(a), len(c2)))
                    res.fail("C07|%s|listing|%s" % (sigp, line_kind(a[k2] if k2 < len(a) else "")),
                             "%s: listing differs (%s) at line %d: %r vs %r" % (label, tag, k2, a[k2:k2 + 1], c2[k2:k2 + 1]))
        res.nt_keys = nt
        res.evals = max(1, len(outs) - 1)
        return res


def line_kind(ln):
    if ln.startswith("#"):
        return "comment:" + ln[2:].split(":")[0][:24]
    return "instruction"


def first_dis_diff(a, b):
    if len(a) != len(b):
        return "code-object-count", "%d vs %d code objects" % (len(a), len(b))
    for ci, (x, y) in enumerate(zip(a, b)):
        for key in sorted(set(x) | set(y)):
            if key == "instrs":
                continue
            if x.get(key) != y.get(key):
                return key, "co%d %s: %s vs %s" % (ci, key, json.dumps(x.get(key))[:140], json.dumps(y.get(key))[:140])
        xi, yi = x.get("instrs"), y.get("instrs")
        if xi != yi:
            if xi is None or yi is None or len(xi) != len(yi):
                return "instr-count", "co%d: %s vs %s instructions" % (ci, xi and len(xi), yi and len(yi))
            for p, q in zip(xi, yi):
                if p != q:
                    fld = next(f for f in sorted(set(p) | set(q)) if p.get(f) != q.get(f))
                    return "instr-field:%s|%s" % (fld, p.get("n")), "co%d offset %s %s: field %s: %r vs %r" % (
                        ci, p.get("o"), p.get("n"), fld, p.get(fld), q.get(fld))
    return "?", "?"


PROP = C07()
