"""C01 - unmarshalled code objects equal what the producing CPython loads."""
from vf import canon as cn
from vf.props.progbase import ProgProp


class C01(ProgProp):
    id = "C01"
    aspects = ("tree",)
    owns_loader_errors = True
    rule = ("case = (bytecode version, program): G-PROG grammar programs and sampled stdlib files compiled and "
            "marshalled by the producing CPython (2.7, 3.6-3.13); oracle = that CPython's canonical code tree "
            "(every field, constants by kind and value) vs xdis's portable unmarshaller on the same bytes, plus "
            "'payload consumed exactly'; non-trivial = tree has >= 1 nested code object and >= 3 constant kinds; "
            "distinct = (version, canonical tree)")
    assumptions = ["the producing CPython's marshal.loads is ground truth",
                   "py2 str that happens to be UTF-8 may come back as text (same bytes); int/long are one kind"]

    def classify(self, case, ref, x, c, res):
        kinds = cn.const_kinds(ref["tree"])
        ncode = cn.count_codes(ref["tree"])
        res.nontrivial = ncode >= 2 and len(kinds) >= 3
        res.key = [case["v"], ref["payload"]]
        res.classes.append("nested-code" if ncode >= 2 else "single-code")
        for k in sorted(kinds):
            res.classes.append("const:" + k)


PROP = C01()
