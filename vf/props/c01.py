"""C01 - unmarshalled code objects equal what the producing CPython loads."""
import os
import re
import struct

from hypothesis import strategies as st

from vf import canon as cn
from vf import progdiff as pd
from vf import refworker as rw
from vf.props.progbase import ProgProp
from vf.run import Result

# corpus directories -> the interpreter whose marshal reads that layout (identical code layout 2.3-2.7 and
# 3.0-3.7; PyPy writes the CPython layout of its language level)
COUSIN = {"2.3": "2.7", "2.4": "2.7", "2.5": "2.7", "2.6": "2.7", "2.7": "2.7", "2.7pypy": "2.7",
          "3.0": "3.7", "3.1": "3.7", "3.2": "3.7", "3.3": "3.7", "3.4": "3.7", "3.5": "3.7", "3.6": "3.6", "3.7": "3.7",
          "pypy35": "3.7", "pypy36": "3.7", "pypy37": "3.7", "3.8": "3.8", "pypy38": "3.8", "3.9": "3.9", "3.10": "3.10",
          "3.11": "3.11", "3.12": "3.12"}


# PyPy's own magic number per language level whose CPython we can run (see c10.PYPY)
PYPY_MAGIC = {"2.7": 62218, "3.6": 192, "3.7": 240, "3.8": 256, "3.9": 336, "3.10": 384}


DOWN = {"2.7": ["2.1", "2.2", "2.3", "2.4", "2.5", "2.6"], "3.7": ["3.0", "3.1", "3.2", "3.3", "3.4", "3.5"]}


class C01(ProgProp):
    id = "C01"
    aspects = ("tree",)
    owns_loader_errors = True
    use_corpus = True
    rule = ("case = (bytecode version, program): G-PROG grammar programs and sampled stdlib files compiled and "
            "marshalled by the producing CPython (2.7, 3.6-3.13), optionally followed by drawn trailing bytes; plus "
            "every historical corpus file of 2.3-3.12 / PyPy judged through the interpreter whose marshal reads that "
            "code layout (2.7 for 2.3-2.7, 3.7 for 3.0-3.7 and PyPy 3.5-3.7, own interpreter from 3.8); oracle = that "
            "CPython's canonical code tree (every field, constants by kind and value) vs xdis's portable unmarshaller "
            "on the same bytes, plus 'payload consumed exactly' (file position after load_code == end of payload, with "
            "or without trailing bytes); non-trivial = tree has >= 1 nested code object and >= 3 constant kinds; "
            "distinct = (version, canonical tree)")
    assumptions = ["the producing (or layout-identical) CPython's marshal.loads is ground truth",
                   "py2 str that happens to be UTF-8 may come back as text (same bytes); int/long are one kind",
                   "1.0-2.2 corpus files have no reference interpreter: they are only decoded structurally (C09, C12)"]

    def strata(self, ctx):
        def wrap(base):
            return st.tuples(base, st.one_of(st.just(""), st.binary(max_size=12).map(rw.hx),
                                             st.sampled_from(["4e", "00", "630000", "72000000"])),
                             st.booleans(), st.integers(0, 59), st.sampled_from([0, 0, 33000, 40000, 98400])).map(
                lambda p: dict(p[0], trail=p[1], pypy=p[2], down=p[3], shift=p[4]))
        return [[label, wrap(s_), w] for label, s_, w in super().strata(ctx)]

    def fixed_cases(self, ctx):
        # one small program per down-level target (with and without a first line beyond 16 bits) and per PyPy magic
        small = "def f(a, b=2):\n    def g(c):\n        return a + c\n    return g\nclass K:\n    x = (1, 2.5, 'three')\n"
        for v in sorted(DOWN):
            for i in range(len(DOWN[v])):
                for shift in (0, 33000):
                    yield {"k": "prog", "v": v, "src": small, "trail": "", "pypy": False, "down": i, "shift": shift}
        for v in sorted(PYPY_MAGIC):
            yield {"k": "prog", "v": v, "src": small, "trail": "4e", "pypy": True, "down": 0, "shift": 0}
        # string constants beyond 1 MiB (readers switch to chunked reads there), of a length that is no multiple of 1 MiB
        big = "x = '%s'\ny = b'%s'\ndef f():\n    return '%s'\n" % ("a" * 1500000, "b" * 1100000, "c" * 1048577)
        for v in ("2.7", "3.8", "3.11", "3.13"):
            yield {"k": "prog", "v": v, "src": big if v != "2.7" else big.replace("b'", "'"), "trail": "", "pypy": False, "down": 2, "shift": 0}
        for rel in pd.corpus_files():
            d = rel.split("/")[0].replace("bytecode_", "")
            if d in COUSIN:
                yield {"k": "corpus", "path": rel}
            elif "dropbox" not in d:
                yield {"k": "corpus-old", "path": rel}

    def judge_corpus_old(self, case, ctx):
        """1.0-2.2 and PyPy 3.2 files: no interpreter reads them any more.  Validity predicates: the file loads, the
        payload is consumed exactly, and every code object has fields of the right kinds and mutually consistent sizes."""
        res = Result()
        rel = case.get("path", "")
        path = os.path.join(pd.CORPUS_DIR, rel)
        if not os.path.isfile(path) or os.path.getsize(path) > (60000 if ctx.tier == "quick" else 10 ** 6):
            res.reject = "corpus-file-too-big-for-tier"
            return res
        data = open(path, "rb").read()
        d = rel.split("/")[0].replace("bytecode_", "")
        res.classes = ["corpus:" + d, "reference:validity-predicates"]
        res.sample = {"corpus_file": rel, "oracle": "validity predicates (no interpreter for this version)"}
        x, err = pd.xdis_dump(data, 0)
        if err:
            res.fail("C01|corpus|%s|loader-raised|%s|%s" % (d, err[0], err[2]), "%s: load raised %s: %s" % (rel, err[0], err[1]))
            return res
        if x.get("consumed") != x.get("payload_len") and d != "3.2pypy":
            res.fail("C01|corpus|%s|consumed" % d, "%s: payload %s bytes, consumed %s" % (rel, x.get("payload_len"), x.get("consumed")))
        vt = tuple(x["header"]["version"][:2])
        self.whole_file_route(data, x, d, rel, res)
        str_kinds = ("y", "t")

        def check(t, where):
            f = t[1]
            def kind(n):
                return f[n][0] if n in f else None
            if kind("co_code") != "y":
                return "%s: co_code is %s" % (where, kind("co_code"))
            for n in ("co_consts", "co_names", "co_varnames", "co_freevars", "co_cellvars"):
                if n in f and kind(n) not in ("T", "L"):       # Python 1.0-1.2 marshalled these as lists
                    return "%s: %s is %s, not a tuple / list" % (where, n, kind(n))
            for n in ("co_names", "co_varnames", "co_freevars", "co_cellvars"):
                if n in f and any(e[0] not in str_kinds for e in f[n][1]):
                    return "%s: %s holds a non-string" % (where, n)
            for n in ("co_filename", "co_name"):
                if kind(n) not in str_kinds:
                    return "%s: %s is %s" % (where, n, kind(n))
            for n in ("co_argcount", "co_nlocals", "co_stacksize", "co_flags", "co_firstlineno"):
                if n in f and (kind(n) != "i" or not (-1 <= int(f[n][1]) < 2 ** 31)):
                    return "%s: %s = %s" % (where, n, f[n])
            if vt >= (1, 3) and "co_argcount" in f and "co_varnames" in f and int(f["co_argcount"][1]) > len(f["co_varnames"][1]) + 2:
                return "%s: co_argcount %s exceeds the %d variable names" % (where, f["co_argcount"][1], len(f["co_varnames"][1]))
            if vt >= (1, 5) and "co_linetable" in f and (kind("co_linetable") != "y" or len(f["co_linetable"][1]) % 4):
                return "%s: line table is not a sequence of byte pairs" % where
            if vt >= (1, 5) and "co_stacksize" in f and not (0 <= int(f["co_stacksize"][1]) < 10000):
                return "%s: co_stacksize = %s" % (where, f["co_stacksize"][1])
            for j, c in enumerate(f["co_consts"][1]):
                if c[0] == "C":
                    r = check(c, "%s/const%d" % (where, j))
                    if r:
                        return r
            return None
        if x["tree"][0] != "C":
            res.fail("C01|corpus|%s|not-a-code-object" % d, "%s: load_module returned %s" % (rel, x["tree"][0]))
        else:
            bad = check(x["tree"], "module")
            if bad:
                res.fail("C01|corpus|%s|implausible-field" % d, "%s: %s" % (rel, bad))
        res.nontrivial = cn.count_codes(x["tree"]) >= 2
        res.key = [rel]
        return res

    def whole_file_route(self, data, x, d, rel, res):
        """load_module() on the whole file (header parsing decides where the code object starts) must give the tree
        that unmarshalling the payload alone gives"""
        if d == "3.2pypy" or data[0:1] == b"0" or x["header"].get("magic_int") == int(x["header"].get("magic_int") or 0) == 48:
            return
        x2, err2 = pd.xdis_dump(data, 0, route="load_module")
        if err2:
            res.fail("C01|corpus|%s|load_module-raised|%s" % (d, err2[0]), "%s: load_module raised %s: %s" % (rel, err2[0], err2[1]))
        elif x2["tree"][0] != "C":
            res.fail("C01|corpus|%s|load_module-no-code-object" % d, "%s: load_module returned %s where unmarshalling the payload gives a code object" % (
                rel, x2["tree"][:1]))
        else:
            dd = cn.diff(x["tree"], x2["tree"])
            if dd:
                res.fail("C01|corpus|%s|load_module-vs-payload|%s" % (d, cn.field_of(dd[0]) or "const"),
                         "%s: load_module's tree differs from the payload's at %s: %s vs %s" % (rel, dd[0], dd[2], dd[1]))

    def judge(self, case, ctx):
        if case.get("k") == "corpus-old":
            return self.judge_corpus_old(case, ctx)
        if case.get("k") == "corpus":
            return self.judge_corpus(case, ctx)
        res = super().judge(case, ctx)
        trail = case.get("trail")
        if trail and not res.reject and not res.failures and case.get("k") in ("prog", "stdlib"):
            # the payload followed by other bytes: load_code must stop exactly at its end
            ref = self.reference(case, ctx)
            data = rw.unhx(ref["header"]) + rw.unhx(ref["payload"]) + rw.unhx(trail)
            x, err = pd.xdis_dump(data, 0)
            res.classes.append("trailing-bytes")
            if err:
                res.fail("C01|%s|trailing-bytes|loader-raised|%s" % (case["v"], err[0]), "with %d trailing bytes load raised %s: %s" % (
                    len(trail) // 2, err[0], err[1]))
            elif x["consumed"] != len(rw.unhx(ref["payload"])):
                res.fail("C01|%s|trailing-bytes|consumed" % case["v"], "payload is %d bytes, %d trailing bytes follow; load_code consumed %d" % (
                    len(rw.unhx(ref["payload"])), len(trail) // 2, x["consumed"]))
            else:
                d = cn.diff(ref["tree"], x["tree"])
                if d:
                    res.fail("C01|%s|trailing-bytes|tree" % case["v"], "tree differs when trailing bytes follow: %s" % (d,))
        if case.get("pypy") and case.get("v") in PYPY_MAGIC and not res.reject and not res.failures and case.get("k") in ("prog", "stdlib"):
            # the same payload as a PyPy file of that language level: PyPy marshals the CPython layout under its own magic
            import struct
            ref = self.reference(case, ctx)
            hdr = rw.unhx(ref["header"])
            data = struct.pack("<H", PYPY_MAGIC[case["v"]]) + hdr[2:] + rw.unhx(ref["payload"])
            x, err = pd.xdis_dump(data, 0)
            res.classes.append("pypy-magic:" + case["v"])
            if err:
                res.fail("C01|pypy%s|loader-raised|%s|%s" % (case["v"], err[0], err[2]), "under PyPy's magic %d load raised %s: %s" % (
                    PYPY_MAGIC[case["v"]], err[0], err[1]))
            else:
                d = cn.diff(_mask_nofree(ref["tree"]), _mask_nofree(x["tree"]))
                if d:
                    res.fail("C01|pypy%s|field|%s" % (case["v"], cn.field_of(d[0]) or "const"),
                             "payload of CPython %s under PyPy's magic %d: tree differs at %s: CPython %s, xdis %s" % (
                                 case["v"], PYPY_MAGIC[case["v"]], d[0], d[1], d[2]))
        if not res.reject and not res.failures and case.get("k") in ("prog", "stdlib") and isinstance(case.get("down"), int) \
                and case["down"] % 3 == 0:
            # the same file unmarshalled by xdis running on another Python (3.8 ... 3.13 are supported hosts)
            from vf.pool import HOSTS
            h = HOSTS[(case["down"] // 3) % len(HOSTS)]
            ref = self.reference(case, ctx)
            if len(ref["payload"]) < 120000:
                r = ctx.pool.host(h).call_raw("x_dump", data=ref["header"] + ref["payload"], route="portable", dis=False)
                res.classes.append("xdis-host:" + h)
                if not r["ok"]:
                    res.fail("C01|%s|on-host|raised|%s" % (case["v"], r["err"].split(":")[0]), "xdis on Python %s cannot load the %s file: %s" % (
                        h, case["v"], r["err"][:200]))
                else:
                    d = cn.diff(ref["tree"], r["r"]["tree"])
                    if d:
                        res.fail("C01|%s|on-host|field|%s" % (case["v"], cn.field_of(d[0]) or "const"),
                                 "xdis on Python %s: tree differs at %s: CPython %s, xdis %s" % (h, d[0], d[1], d[2]))
        if case.get("v") in DOWN and not res.reject and not res.failures and case.get("k") in ("prog", "stdlib") \
                and isinstance(case.get("down"), int):
            self.judge_down(case, ctx, res)
        return res

    def reference(self, case, ctx):
        if case.get("k") == "prog" and not case.get("shift") and isinstance(case.get("down"), int) and case["down"] % 2:
            memo = ctx.cache.setdefault("inline", {})
            key = (case["v"], case["src"])
            if key not in memo:
                if len(memo) > 50:
                    memo.clear()
                memo[key] = ctx.pool.ref(case["v"]).call("compile", src=case["src"], dis=True, inline=True)
            return memo[key]
        if case.get("k") == "prog" and case.get("shift"):
            # the same program tens of thousands of lines further down the file (first-line fields beyond 16 bits)
            memo = ctx.cache.setdefault("shifted", {})
            key = (case["v"], case["shift"], case["src"])
            if key not in memo:
                if len(memo) > 50:
                    memo.clear()
                memo[key] = ctx.pool.ref(case["v"]).call("compile", src="\n" * int(case["shift"]) + case["src"], dis=True)
            return memo[key]
        return super().reference(case, ctx)

    def judge_down(self, case, ctx, res):
        """the same code tree as a file of an older version with the identical code layout (2.3-2.6 from 2.7's tree,
        3.0-3.5 from 3.7's): written by refmarshal in that version's marshal format, read back by the cousin interpreter"""
        import struct
        from vf.magicreg import final_magics
        from vf.ref import refmarshal as rm
        v = case["v"]
        target = DOWN[v][case["down"] % len(DOWN[v])]
        ref = self.reference(case, ctx)
        if len(ref["payload"]) > 60000:
            return
        tree = ref["tree"]
        choices = [case["down"] % 7, 3, 1, 4, 1, 5, 9, 2, 6]
        try:
            if rm.vtuple(target) < (2, 3):
                # 16-bit header fields: the writer stores the low 16 bits, the reader sign-extends them
                tree = _wrap16(tree)
                payload, feats = rm.encode(tree, target, choices)
                cousin_payload, _ = rm.encode(tree, target, choices, layout_version=v)
            else:
                payload, feats = rm.encode(tree, target, choices)
                cousin_payload = payload
        except (rm.Unencodable, struct.error):
            return
        r = ctx.pool.ref(v).call("loads", payload=rw.hx(cousin_payload))
        if "reject" in r:
            return
        vt = rm.vtuple(target)
        hdr = struct.pack("<H", final_magics()[vt]) + b"\r\n" + b"\x01\x02\x03\x04" + (b"\x05\x00\x00\x00" if vt >= (3, 3) else b"")
        x, err = pd.xdis_dump(hdr + payload, 0)
        res.classes.append("down-level:" + target)
        if err:
            res.fail("C01|%s|down-level|loader-raised|%s|%s" % (target, err[0], err[2]), "%s-format file of a %s code tree: load raised %s: %s" % (
                target, v, err[0], err[1]))
            return
        d = cn.diff(r["tree"], x["tree"])
        if d:
            res.fail("C01|%s|down-level|field|%s|exp=%s|got=%s" % (target, cn.field_of(d[0]) or "const", pd.kshort(d[1]), pd.kshort(d[2])),
                     "%s-format file of a %s code tree: differs at %s: CPython %s reads %s, xdis %s" % (target, v, d[0], v, d[1], d[2]))
        elif x.get("consumed") != len(payload):
            res.fail("C01|%s|down-level|consumed" % target, "payload %d bytes, consumed %s" % (len(payload), x.get("consumed")))

    def judge_corpus(self, case, ctx):
        res = Result()
        rel = case.get("path", "")
        d = rel.split("/")[0].replace("bytecode_", "")
        path = os.path.join(pd.CORPUS_DIR, rel)
        if d not in COUSIN or not os.path.exists(path):
            res.reject = "malformed-case"
            return res
        if os.path.getsize(path) > (60000 if ctx.tier == "quick" else 10 ** 6):
            res.reject = "corpus-file-too-big-for-tier"
            return res
        data = open(path, "rb").read()
        m = re.match(r"(?:pypy)?(\d)\.?(\d+)", d)
        vt = (int(m.group(1)), int(m.group(2)))
        hl = 8 if vt < (3, 3) else (12 if vt < (3, 7) else 16)
        if d == "3.2pypy" or data[0:1] == b"0":
            res.reject = "pypy3.2-header"
            return res
        cousin = COUSIN[d]
        ref = ctx.pool.ref(cousin).call_raw("loads", payload=rw.hx(data[hl:]))
        if not ref["ok"] or "reject" in ref["r"]:
            res.reject = "cousin-interpreter-cannot-load:%s" % d
            return res
        ref = ref["r"]
        x, err = pd.xdis_dump(data, 0)
        res.classes = ["corpus:" + d, "reference:" + cousin]
        res.sample = {"corpus_file": rel, "reference_interpreter": cousin}
        if err:
            res.fail("C01|corpus|%s|loader-raised|%s|%s" % (d, err[0], err[2]), "%s: load raised %s: %s" % (rel, err[0], err[1]))
            return res
        rt, xt = ref["tree"], x["tree"]
        if "pypy" in d:
            # CPython's code constructor sets CO_NOFREE (0x40) itself when there are no cell/free variables;
            # PyPy does not store that bit, and xdis rightly reports what is stored
            rt, xt = _mask_nofree(rt), _mask_nofree(xt)
        diff = cn.diff(rt, xt)
        if diff:
            res.fail("C01|corpus|%s|field|%s|exp=%s|got=%s" % (d, cn.field_of(diff[0]) or "const", pd.kshort(diff[1]), pd.kshort(diff[2])),
                     "%s: code tree differs at %s: CPython %s %s, xdis %s" % (rel, diff[0], cousin, diff[1], diff[2]))
        if x.get("consumed") != x.get("payload_len"):
            res.fail("C01|corpus|%s|consumed" % d, "%s: payload %s bytes, consumed %s" % (rel, x.get("payload_len"), x.get("consumed")))
        if not err:
            self.whole_file_route(data, x, d, rel, res)
        kinds = cn.const_kinds(ref["tree"])
        res.nontrivial = cn.count_codes(ref["tree"]) >= 2 and len(kinds) >= 3
        res.key = [rel]
        return res

    def classify(self, case, ref, x, c, res):
        kinds = cn.const_kinds(ref["tree"])
        ncode = cn.count_codes(ref["tree"])
        res.nontrivial = ncode >= 2 and len(kinds) >= 3
        res.key = [case["v"], ref["payload"]]
        res.classes.append("nested-code" if ncode >= 2 else "single-code")
        for k in sorted(kinds):
            res.classes.append("const:" + k)


def _wrap16(t):
    """code tree whose co_firstlineno is what a 16-bit signed field keeps of it"""
    k = t[0] if isinstance(t, list) and t else None
    if k == "C":
        d = dict((f, _wrap16(v)) for f, v in t[1].items())
        if "co_firstlineno" in d and d["co_firstlineno"][0] == "i":
            n = int(d["co_firstlineno"][1]) & 0xFFFF
            d["co_firstlineno"] = ["i", str(n - 0x10000 if n >= 0x8000 else n)]
        return ["C", d]
    if k in ("T", "L", "S", "Z"):
        return [k, [_wrap16(v) for v in t[1]]]
    return t


def _mask_nofree(t):
    k = t[0] if isinstance(t, list) and t else None
    if k == "C":
        d = dict((f, _mask_nofree(v)) for f, v in t[1].items())
        if "co_flags" in d and d["co_flags"][0] == "i":
            d["co_flags"] = ["i", str(int(d["co_flags"][1]) & ~0x40)]
        return ["C", d]
    if k in ("T", "L", "S", "Z"):
        return [k, [_mask_nofree(v) for v in t[1]]]
    return t


PROP = C01()
