"""C17 - 3.11+ exception and position tables."""
from vf.props.progbase import ProgProp


class C17(ProgProp):
    id = "C17"
    use_tables = True
    aspects = ("exc", "positions", "colines")
    versions = ["3.11", "3.12", "3.13"]
    rule = ("case = (3.11/3.12/3.13, program) from G-PROG / stdlib sample; oracle: parse_exception_table == "
            "dis._parse_exception_table; Code311.co_positions() == co.co_positions() per code unit; "
            "Code311.co_lines() == co.co_lines() per code unit; non-trivial = code object with a non-empty exception "
            "table or a location table holding a long-form / no-column / no-location entry or negative delta; "
            "distinct = (version, tables)")
    assumptions = ["co_positions()/co_lines()/dis._parse_exception_table of the producing CPython are ground truth",
                   "3.11 does not merge adjacent equal-line ranges, 3.12+ do: lines are compared per code unit"]

    def classify(self, case, ref, x, c, res):
        keys = []
        for i, d in enumerate(ref["dis"]):
            if not isinstance(d, dict) or "positions" not in d:
                continue
            pos = d["positions"]
            feats = set()
            if d.get("exc"):
                feats.add("exception-table")
            for p in pos:
                if p[0] is None:
                    feats.add("no-location")
                elif p[2] is None:
                    feats.add("no-column")
                elif p[1] != p[0]:
                    feats.add("multi-line(long form)")
                elif p[3] is None:
                    feats.add("no-end-column")
                elif p[2] >= 128 or p[3] >= 128 or (p[3] - p[2]) >= 16:
                    feats.add("wide-columns")
            lines = [p[0] for p in pos if p[0] is not None]
            if any(b < a for a, b in zip(lines, lines[1:])):
                feats.add("negative-line-delta")
            for f in feats:
                res.classes.append(f)
            if feats - {"wide-columns"}:
                keys.append([case["v"], ref["payload"][:48], i])
        res.nt_keys = keys
        res.evals = max(1, len(ref["dis"]))


PROP = C17()
