"""C17 - 3.11+ exception and position tables."""
from vf.props.progbase import ProgProp


class C17(ProgProp):
    id = "C17"
    use_tables = True
    aspects = ("exc", "positions", "colines")
    versions = ["3.11", "3.12", "3.13"]
    rule = ("case = (3.11/3.12/3.13, program) from G-PROG / stdlib sample; oracle: parse_exception_table == "
            "dis._parse_exception_table; Code311.co_positions() == co.co_positions() per code unit; "
            "Code311.co_lines() == co.co_lines() per code unit; the 'ExceptionTable:' rows of the classic listing == those "
            "entries; also drawn location tables (every entry form, 1-3 byte varints) and exception tables (1-4 byte "
            "varints) attached to native code objects; non-trivial = code object with a non-empty exception "
            "table or a location table holding a long-form / no-column / no-location entry or negative delta; "
            "distinct = (version, tables)")
    assumptions = ["co_positions()/co_lines()/dis._parse_exception_table of the producing CPython are ground truth",
                   "3.11 does not merge adjacent equal-line ranges, 3.12+ do: lines are compared per code unit"]

    def judge(self, case, ctx):
        res = super().judge(case, ctx)
        if res.reject or case.get("k") not in ("prog", "loctab"):
            return res
        # the 'ExceptionTable:' sections of the listing must show exactly the entries CPython parses
        import io
        import os
        import re
        from collections import Counter
        from vf import refworker as rw
        ref = self.reference(case, ctx)
        if "reject" in ref or len(ref["payload"]) > 9000:
            return res          # (listing a big file is slow: the row check runs on small programs and drawn tables)
        want = Counter()
        for d in ref["dis"]:
            for s_, e_, t_, depth, lasti in (d.get("exc") or []):
                want["  %d to %d -> %d [%d]%s" % (s_, e_ - 2, t_, depth, " lasti" if lasti else "")] += 1
        path = os.path.join(ctx.scratch, "c17.pyc")
        with open(path, "wb") as f:
            f.write(rw.unhx(ref["header"]) + rw.unhx(ref["payload"]))
        out = io.StringIO()
        try:
            rw.xd().disasm.disassemble_file(path, out, "classic")
        except Exception as e:
            res.fail("C17|listing|raised|%s" % type(e).__name__, "classic listing raised %s: %s" % (type(e).__name__, e))
            return res
        got = Counter()
        in_table = False
        for ln in out.getvalue().split("\n"):
            if ln == "ExceptionTable:":
                in_table = True
                continue
            if in_table and re.match(r"^  -?\d+ to -?\d+ -> \d+ \[\d+\]", ln):
                got[ln.rstrip()] += 1
            else:
                in_table = False
        if got != want:
            miss = list((want - got).elements())[:3]
            extra = list((got - want).elements())[:3]
            res.fail("C17|listing|exception-table-rows", "ExceptionTable rows differ from CPython's entries: missing %s, unexpected %s" % (miss, extra))
        res.classes.append("listing-exception-rows:%d" % min(sum(want.values()), 3))
        # the same file decoded by xdis running under `python -O` (assert statements stripped): same tables
        if not res.failures and sum(bytearray(rw.unhx(ref["payload"])[:64])) % 4 == 0:
            import json
            from vf import progdiff as pd
            data = rw.unhx(ref["header"]) + rw.unhx(ref["payload"])
            plain, perr = pd.xdis_dump(data, 0)
            r = ctx.pool.get("3.12", "host", "optimize").call_raw("x_dump", data=rw.hx(data), route="portable", max_code=0)
            res.classes.append("python -O host")
            if perr is None:
                if not r["ok"]:
                    res.fail("C17|python-O|raised|%s" % r["err"].split(":")[0], "under python -O decoding raised %s" % r["err"][:200])
                else:
                    for i_, (a_, b_) in enumerate(zip(plain["dis"], r["r"]["dis"])):
                        for key in ("positions", "positions_pp", "co_lines", "exc_parsed", "linestarts", "positions_err", "positions_pp_err", "co_lines_err"):
                            if json.dumps(a_.get(key)) != json.dumps(b_.get(key)):
                                res.fail("C17|python-O|%s" % key, "co%d: %s differs when xdis runs under python -O: %s vs %s" % (
                                    i_, key, json.dumps(b_.get(key))[:120], json.dumps(a_.get(key))[:120]))
                                break
        return res

    def classify(self, case, ref, x, c, res):
        keys = []
        for i, d in enumerate(ref["dis"]):
            if not isinstance(d, dict) or "positions" not in d:
                continue
            pos = d["positions"]
            feats = set()
            if d.get("exc"):
                feats.add("exception-table")
            for p in pos:
                if p[0] is None:
                    feats.add("no-location")
                elif p[2] is None:
                    feats.add("no-column")
                elif p[1] != p[0]:
                    feats.add("multi-line(long form)")
                elif p[3] is None:
                    feats.add("no-end-column")
                elif p[2] >= 128 or p[3] >= 128 or (p[3] - p[2]) >= 16:
                    feats.add("wide-columns")
            lines = [p[0] for p in pos if p[0] is not None]
            if any(b < a for a, b in zip(lines, lines[1:])):
                feats.add("negative-line-delta")
            for f in feats:
                res.classes.append(f)
            if feats - {"wide-columns"}:
                keys.append([case["v"], ref["payload"][:48], i])
        res.nt_keys = keys
        res.evals = max(1, len(ref["dis"]))


PROP = C17()
