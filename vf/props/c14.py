"""C14 - xdis.marsh and the built-in marshal are interchangeable on plain values."""
from hypothesis import strategies as st

from vf import canon as cn
from vf.gen import values as gv
from vf.pool import HOSTS
from vf.props.c10 import xdis_frame
from vf.run import Result


class C14:
    id = "C14"
    rule = ("case = (host 3.8-3.13, plain value from G-VALUE: None/bool/Ellipsis/StopIteration/int of any size/float/"
            "complex/bytes/text of any code points incl. lone surrogates/tuple/list/set/frozenset/dict, nested, "
            "containers up to 300); evaluated inside a worker of that host against ITS marshal: "
            "marshal.loads(xdis.marsh.dumps(v)) == v and xdis.marsh.loads/load(marshal.dumps(v, k)) == v for k in "
            "{0,1}, by kind and value (float bit patterns; NaN by NaN-ness since both directions use text floats); "
            "non-trivial = value nests >= 2 levels or holds non-ASCII text, an int beyond 32 bits or a special float; "
            "distinct = canonical value")
    assumptions = ["the host's built-in marshal is ground truth", "text-float formats cannot carry NaN sign/payload"]
    budgets = {"quick": {"shards": 12, "examples": 900, "seconds": 70},
               "thorough": {"shards": 16, "examples": 8000, "seconds": 900}}

    def strategy(self, ctx):
        v = gv.strat("v", False, True)
        return st.tuples(st.sampled_from(HOSTS), v).map(lambda p: {"host": p[0], "value": gv.resolve(p[1], [])})

    def fixed_cases(self, ctx):
        one, onef, true = ["i", "1"], ["f", "3ff0000000000000"], ["b", 1]
        two, twof = ["i", "2"], ["f", "4000000000000000"]
        vals = [
            # tuples that compare equal but hold different kinds: each must come back as it went in
            ["L", [["T", [one, two]], ["T", [onef, twof]], ["T", [true, two]], ["T", [one, two]]]],
            ["T", [["T", [["i", "0"]]], ["T", [["f", "0000000000000000"]]], ["T", [["b", 0]]], ["T", [["f", "8000000000000000"]]]]],
            # very many containers of one kind in a single value (flat, not nested)
            ["L", [["D", []]] * 2100], ["L", [["L", []]] * 2100], ["T", [["T", []]] * 2100], ["L", [["D", [[one, two]]]] * 2500],
            ["L", [["S", []]] * 2100],
        ]
        # one mutable container object referenced several times inside the value ([row] * 3, {'x': d, 'y': d})
        row = ["L", [one, two]]
        dd = ["D", [[one, two]]]
        vals += [["L", [["=", 0, row], ["=", 0, row], ["=", 0, row]]], ["T", [["=", 0, dd], ["=", 0, dd]]],
                 ["D", [[one, ["=", 0, row]], [two, ["=", 0, row]]]], ["L", [["=", 0, ["S", [one]]], ["=", 0, ["S", [one]]]]]]
        for h in HOSTS:
            for v in vals:
                yield {"host": h, "value": v}

    def strata(self, ctx):
        v = gv.strat("v", False, True)
        return [["host:" + h, v.map(lambda t, h=h: {"host": h, "value": gv.resolve(t, [])}), 1] for h in HOSTS]

    def judge(self, case, ctx):
        res = Result()
        host = case.get("host")
        if host not in HOSTS:
            res.reject = "malformed-case"
            return res
        try:
            value = gv.expand(case["value"])
        except Exception:
            res.reject = "malformed-case"
            return res
        r = ctx.pool.host(host).call("x_marsh", value=value)
        if r.get("aliasing"):
            res.fail("C14|loads|result-shared-between-calls", "on %s: %s" % (host, r["aliasing"]))
        want = cn.normalize_nan(r["value"])
        kinds = gv.kinds_in(value)
        sigk = "C14"

        def cmp(label, key):
            if key + "_err" in r:
                frame = xdis_frame(r.get(key + "_tb", ""))
                res.fail("%s|%s|raised|%s|%s" % (sigk, label, r[key + "_err"].split(":")[0], frame),
                         "%s on %s raised %s" % (label, host, r[key + "_err"]))
            elif key in r:
                got = cn.normalize_nan(r[key])
                d = cn.diff(want, got)
                if d:
                    res.fail("%s|%s|differs|exp=%s|got=%s" % (sigk, label, _k(d[1]), _k(d[2])),
                             "%s on %s: at %s expected %s, got %s" % (label, host, d[0], d[1], d[2]))
        if "xdumps_err" in r:
            res.fail("%s|dumps|raised|%s|%s" % (sigk, r["xdumps_err"].split(":")[0], xdis_frame(r.get("xdumps_tb", ""))),
                     "xdis.marsh.dumps on %s raised %s" % (host, r["xdumps_err"]))
        elif "xdumps_loads_err" in r:
            res.fail("%s|dumps|host-marshal-rejects|%s" % (sigk, r["xdumps_loads_err"].split(":")[0]),
                     "host %s marshal.loads rejects xdis.marsh.dumps output (%s): %s" % (host, r.get("xdumps_hex"), r["xdumps_loads_err"]))
        else:
            if r.get("dumps_type") != "bytes":
                res.fail("%s|dumps|not-bytes" % sigk, "xdis.marsh.dumps returned %s" % r.get("dumps_type"))
            cmp("dumps", "xdumps_loads")
            c = r.get("xdumps_consumed")
            if c and c[0] != c[1]:
                res.fail("%s|dumps|trailing-bytes" % sigk, "marshal.load consumed %d of %d bytes" % (c[0], c[1]))
        for k in (0, 1):
            if "dumps%d_reject" % k in r:
                continue
            cmp("loads(v%d)" % k, "xloads%d" % k)
            cmp("load(v%d)" % k, "xload%d" % k)
        depth = _depth(value)
        special = any(f in kinds for f in ("nonascii",)) or _has_special(value)
        res.nontrivial = depth >= 2 or special
        res.key = r["value"]
        res.classes = ["host:" + host] + sorted("kind:" + k for k in kinds if len(k) == 1) + (
            ["nonascii-text"] if "nonascii" in kinds else []) + (["depth>=2"] if depth >= 2 else []) + (
            ["big-container"] if "big" in kinds else [])
        res.sample = {"host": host, "value": cn.summary(r["value"], 160)}
        return res


def _k(summary):
    s = summary.lstrip("[").lstrip('"')
    return s[:1] if s else "?"


def _depth(t):
    k = t[0]
    if k in ("T", "L", "S", "Z"):
        return 1 + max([_depth(x) for x in t[1]] or [0])
    if k == "D":
        return 1 + max([max(_depth(a), _depth(b)) for a, b in t[1]] or [0])
    return 0


def _has_special(t):
    k = t[0]
    if k == "i":
        return not (-2 ** 31 <= int(t[1], 0) < 2 ** 31)
    if k == "f":
        return cn.is_nan_bits(t[1]) or t[1] in ("7ff0000000000000", "fff0000000000000", "8000000000000000")
    if k == "c":
        return True
    if k in ("T", "L", "S", "Z"):
        return any(_has_special(x) for x in t[1])
    if k == "D":
        return any(_has_special(a) or _has_special(b) for a, b in t[1])
    return False


PROP = C14()
