"""Base for the program-differential properties (C01-C05, C17)."""
import os

from hypothesis import strategies as st

from vf import canon as cn
from vf import progdiff as pd
from vf import refworker as rw
from vf.gen import asm as ga
from vf.gen import prog as gp
from vf.gen import tables as gt
from vf.pool import ALL_VERSIONS
from vf.run import Result


# PyPy's own magic numbers for the levels no CPython of ours matches (see c10.PYPY); code layout = the CPython level's
OLD_PYPY = {"2.7pypy": 62218, "3.2pypy": 3187, "3.3pypy": 64, "3.5pypy": 112}
OLD_ASM = ["2.0", "2.1", "2.2", "2.3", "2.4", "2.5", "2.6", "3.0", "3.1", "3.2", "3.3", "3.4", "3.5"] + sorted(OLD_PYPY)


class ProgProp:
    aspects = ()
    versions = ALL_VERSIONS
    owns_loader_errors = False
    quick_max_code = 2400
    thorough_max_code = 6000
    budgets = {"quick": {"shards": 14, "examples": 90, "seconds": 80},
               "thorough": {"shards": 16, "examples": 1500, "seconds": 1100}}
    use_corpus = False

    def max_code(self, ctx):
        return self.quick_max_code if ctx.tier == "quick" else self.thorough_max_code

    def setup(self, ctx):
        pass

    def kind_strategy(self, ctx, k, v):
        """the generator of one (kind, version) stratum"""
        max_size = 30000 if ctx.tier == "quick" else 150000
        if k == "table":
            vtup = pd.vt(v)
            if vtup >= (3, 11):
                @st.composite
                def loc(draw):
                    first = draw(st.sampled_from([1, 1, 5, 1000]))
                    return {"k": "loctab", "v": v, "first": first, "entries": draw(gt.loctab_entries(first)),
                            "exc": draw(gt.exctab_entries())}
                return loc()
            return gt.lnotab_cases(vtup).map(lambda c: dict(c, k="lnotab", v=v))
        if k == "asm":
            return ga.asm_cases(v, self.tables(ctx, v)).map(lambda items: {"k": "asm", "v": v, "items": items})
        if k == "asmold":
            return ga.asm_cases(v, self.old_tables(ctx, v)).map(lambda items: {"k": "asmold", "v": v, "items": items})
        if k == "prog":
            return st.integers(2, 5).flatmap(lambda n: gp.programs(v, size=n)).map(lambda src: {"k": "prog", "v": v, "src": src})
        files = pd.stdlib_files(ctx, v, max_size)
        return st.sampled_from(files).map(lambda path: {"k": "stdlib", "v": v, "path": path})

    def strata(self, ctx):
        """[label, strategy, weight] per (kind, version): see Runner.run_hypothesis"""
        out = []
        for v in self.versions:
            out.append(["prog:" + v, self.kind_strategy(ctx, "prog", v), 3])
            out.append(["stdlib:" + v, self.kind_strategy(ctx, "stdlib", v), 2])
            if self.use_asm:
                out.append(["asm:" + v, self.kind_strategy(ctx, "asm", v), 2])
            if self.use_tables:
                out.append(["table:" + v, self.kind_strategy(ctx, "table", v), 2])
        if self.use_asm:
            for ov in OLD_ASM:
                out.append(["asmold:" + ov, self.kind_strategy(ctx, "asmold", ov), 1])
        return out

    def strategy(self, ctx):
        return st.one_of([s for _, s, _ in self.strata(ctx)])

    use_asm = False
    use_tables = False

    def patch_api_cases(self, ctx):
        """the same streams through the API object of an unlisted patch level of the version (3.10.17, 2.7.99 ...)"""
        for v in self.versions:
            pats = ga.jump_patterns(self.tables(ctx, v))[:1] + ga.opcode_sweeps(self.tables(ctx, v))
            for j, items in enumerate(pats):
                yield {"k": "asm", "v": v, "items": items, "patch": (17, 99)[j % 2]}

    def judge_patch_api(self, case, ctx, res):
        """make_std_api((major, minor, unlisted patch)) - asked for after the PyPy flavour of that version - decodes the
        code like the table of major.minor; API objects kept from earlier cases still decode their own code"""
        v = case["v"]
        vt = pd.vt(v)
        ref = self.reference(case, ctx)
        x = rw.xd()
        data = rw.unhx(ref["header"]) + rw.unhx(ref["payload"])
        co = rw.x_load_bytes(data)[3]

        def row(i):
            return (i.offset, i.opname, i.arg, "code" if hasattr(i.argval, "co_code") else repr(i.argval))
        base = [row(i) for i in x.bytecode.Bytecode(co, x.disasm.get_opcode(vt, False))]
        vi = (vt[0], vt[1], case["patch"])
        try:
            try:
                x.std.make_std_api(vi, "pypy")
                x.op_imports.get_opcode_module(vi, "pypy")
            except Exception:
                pass
            api = x.std.make_std_api(vi, None)
            got = [row(i) for i in api.get_instructions(co)]
        except Exception as e:
            res.fail("%s|patch-level-api|raised|%s" % (self.id, type(e).__name__), "make_std_api(%r).get_instructions raised %s: %s" % (vi, type(e).__name__, e))
            return
        cols = 4 if "argval" in self.aspects else 3
        if [g[:cols] for g in got] != [b_[:cols] for b_ in base]:
            k = next((j for j in range(min(len(got), len(base))) if got[j][:cols] != base[j][:cols]), min(len(got), len(base)))
            res.fail("%s|patch-level-api|stream" % self.id, "make_std_api(%r) decodes %s at row %d where the %s table gives %s" % (
                vi, got[k:k + 1], k, v, base[k:k + 1]))
        res.classes.append("patch-level-api")
        kept = ctx.cache.setdefault("kept_apis", [])
        for (ovi, oapi, oco, obase) in kept[-6:]:
            try:
                again = [row(i) for i in oapi.get_instructions(oco)]
            except Exception as e:
                again = "raised %s" % type(e).__name__
            if again != obase:
                res.fail("%s|kept-api|stream" % self.id, "the API object made earlier for %r decodes its code differently now that make_std_api(%r) "
                         "has been called: %s" % (ovi, vi, str(again)[:120]))
                break
        if got == base:
            kept.append((vi, api, co, base))

    def table_reference(self, case, ctx):
        """a native code object of NOPs carrying the drawn line / location / exception table"""
        v = case["v"]
        tab = self.tables(ctx, v)
        nop = tab.opmap["NOP"]
        f = {"co_firstlineno": ["i", str(int(case["first"]))]}
        if case["k"] == "lnotab":
            n = int(case["codelen"])
            if n < 1 or n > 20000:
                return {"reject": "malformed-table-case"}
            if tab.v >= (3, 10):
                # a 3.10 table whose lines go below 1: CPython reports a negative line as "no line"
                line = int(case["first"])
                for b in rw.unhx(case["table"])[1::2]:
                    if b != 128:
                        line += b - 256 if b > 127 else b
                    if line < 1:
                        return {"reject": "malformed-table-case"}
            unit = bytes([nop, 0]) if tab.v >= (3, 6) else bytes([nop])
            code = (unit * n)[:n]
            f["co_linetable"] = ["y", case["table"]]
        else:
            try:
                lt = gt.encode_loctab(case["entries"])
                et = gt.encode_exctab(case.get("exc", []))
                units = sum(e[1] for e in case["entries"])
            except Exception:
                return {"reject": "malformed-table-case"}
            if units < 1 or units > 5000 or any(e[1] < 1 for e in case.get("exc", [])):
                return {"reject": "malformed-table-case"}
            code = bytes([nop, 0]) * units
            f["co_linetable"] = ["y", rw.hx(lt)]
            f["co_exceptiontable"] = ["y", rw.hx(et)]
        f["co_code"] = ["y", rw.hx(code)]
        r = ctx.pool.ref(v).call("mkcode", fields=f, dis=True)
        if "reject" not in r and "referr" in r["dis"][0]:
            return {"reject": "reference-dis-cannot-render: " + r["dis"][0]["referr"].split(":")[0]}
        return r

    def tables(self, ctx, v):
        key = ("asmtab", v)
        if key not in ctx.cache:
            ctx.cache[key] = ga.Tables(v, ctx.pool.ref(v).call("opcode_tables"))
        return ctx.cache[key]

    def old_tables(self, ctx, v):
        """a version nobody can run any more: opcode numbers and categories are xdis's own (C09 judges those); the
        layout and operand arithmetic below are this harness's"""
        key = ("asmtab-old", v)
        if key not in ctx.cache:
            # the version's own table module, by name: the version -> table lookup xdis decodes with is then checked too
            import importlib
            rw.xd()
            try:
                opc = importlib.import_module("xdis.opcodes.opcode_%s%s" % (v.replace("pypy", "").replace(".", ""), "pypy" if v.endswith("pypy") else ""))
            except ImportError:
                opc = rw.xd().disasm.get_opcode(ga.vt(v.replace("pypy", "")), v.endswith("pypy"))
            hasjrel, hasjabs = set(opc.hasjrel), set(opc.hasjabs)
            cats = dict((c_, set(getattr(opc, c_))) for c_ in ("hasconst", "hasname", "haslocal", "hasfree", "hascompare"))
            # which opcodes jump, and how, is taken from the family's real interpreter wherever the opcode still exists
            # there under the same name (2.7 for 2.x, 3.6 for 3.0-3.5): an independent source for the reference decode
            fam = self.tables(ctx, "2.7" if ga.vt(v.replace("pypy", "")) < (3, 0) else "3.6")
            for name, num in opc.opmap.items():
                if name in fam.opmap and num >= opc.HAVE_ARGUMENT:
                    fnum = fam.opmap[name]
                    hasjrel.discard(num)
                    hasjabs.discard(num)
                    if fnum in fam.jrel:
                        hasjrel.add(num)
                    elif fnum in fam.jabs:
                        hasjabs.add(num)
                    for c_, fset in (("hasconst", fam.const), ("hasname", fam.name), ("haslocal", fam.local), ("hasfree", fam.free),
                                     ("hascompare", fam.compare)):
                        cats[c_].discard(num)
                        if fnum in fset:
                            cats[c_].add(num)
            ctx.cache[key] = ga.Tables(v.replace("pypy", ""), {
                "opmap": dict((n, c) for n, c in opc.opmap.items() if not n.startswith("<")),
                "HAVE_ARGUMENT": opc.HAVE_ARGUMENT, "EXTENDED_ARG": opc.opmap["EXTENDED_ARG"],
                "hasjrel": sorted(hasjrel), "hasjabs": sorted(hasjabs), "hasconst": sorted(cats["hasconst"]),
                "hasname": sorted(cats["hasname"]), "haslocal": sorted(cats["haslocal"]), "hasfree": sorted(cats["hasfree"]),
                "hascompare": sorted(cats["hascompare"])})
        return ctx.cache[key]

    def old_file(self, ctx, v, items, ntab=None, raw_code=None):
        """(table, co_code, reference decode, labels, header, payload, string kind) of an assembled old-version file"""
        import struct
        from vf.magicreg import final_magics
        from vf.ref import refmarshal as rm
        case = {"items": items}
        tab = self.old_tables(ctx, v)
        for it in (case.get("items") or [None]) if raw_code is None else []:
            if not isinstance(it, dict) or it.get("op") not in tab.opmap:
                return None
        if raw_code is not None:
            co_code = raw_code
        else:
            co_code, starts, info = ga.assemble(tab, case["items"])
        # reference decode
        ref = []
        i, ext, n = 0, 0, len(co_code)
        labels = set()
        while i < n:
            o = i
            op = co_code[i]
            i += 1
            arg = None
            if op >= tab.have_arg:
                arg = co_code[i] | (co_code[i + 1] << 8) | ext
                ext = 0
                i += 2
                if op == tab.ext:
                    ext = arg << 16
            tgt = None
            if arg is not None and op in tab.jrel:
                tgt = i + arg
            elif arg is not None and op in tab.jabs:
                tgt = arg
            if tgt is not None:
                labels.add(tgt)
            ref.append((o, op, arg, tgt))
        base_v = v.replace("pypy", "")
        vt = ga.vt(base_v)
        py2 = vt < (3, 0)
        sk = "y" if py2 else "t"
        NT = ntab or ga.NTAB
        consts = ["T", [["i", str(k)] for k in range(NT)]]
        names = ["n%d" % k for k in range(NT)]
        varnames = ["v%d" % k for k in range(ga.NTAB)]
        tree = rm.template_code_tree(base_v, consts, code=co_code, names=names, varnames=varnames)
        tree[1]["co_cellvars"] = rm.names_tuple(["c%d" % k for k in range(8)], py2)
        tree[1]["co_freevars"] = rm.names_tuple(["f%d" % k for k in range(8)], py2)
        payload, _ = rm.encode(tree, base_v)
        hdr = struct.pack("<H", OLD_PYPY[v] if v in OLD_PYPY else final_magics()[vt]) + b"\r\n" + b"\x01\x02\x03\x04" + (b"\x05\x00\x00\x00" if vt >= (3, 3) else b"")
        return tab, co_code, ref, labels, hdr, payload, sk

    def judge_asm_old(self, case, ctx):
        """2.3-2.6 / 3.0-3.5 byte code laid out by G-ASM, decoded by a transcription of those interpreters' fetch
        loop (1- and 3-byte instructions, 16-bit operands, EXTENDED_ARG supplies bits 16-31)"""
        import struct
        from vf.magicreg import final_magics
        from vf.ref import refmarshal as rm
        res = Result()
        v = case.get("v")
        if v not in OLD_ASM:
            res.reject = "malformed-case"
            return res
        built = self.old_file(ctx, v, case.get("items"), ntab=case.get("ntab"))
        if built is None:
            res.reject = "malformed-asm: unknown opcode"
            return res
        tab, co_code, ref, labels, hdr, payload, sk = built
        x, err = pd.xdis_dump(hdr + payload, self.max_code(ctx))
        res.classes = ["version:" + v, "source:asmold"]
        res.sample = {"version": v, "kind": "assembled code object, harness decode as reference",
                      "items": ["%s %s" % (it_["op"], it_.get("arg")) for it_ in case["items"][:8]]}
        if err:
            res.reject = "xdis-cannot-load(C01's subject)"
            return res
        d = x["dis"][0]
        fails = {}

        def fail(aspect, sig, msg):
            fails.setdefault(aspect, []).append(("%s|%s" % (v, sig), msg))
        if "instrs_err" in d:
            fail("tiling", "iteration-raised|" + d["instrs_err"].split(":")[0], "iterating instructions raised %s" % d["instrs_err"])
        elif "instrs" in d:
            xi = d["instrs"]
            if [q["o"] for q in xi] != [r[0] for r in ref]:
                fail("tiling", "asmold-offsets", "instruction offsets %s, byte layout says %s" % ([q["o"] for q in xi][:12], [r[0] for r in ref][:12]))
            else:
                for q, (o, op, arg, tgt) in zip(xi, ref):
                    name = q["n"]
                    if q["op"] != op:
                        fail("decode", "asmold-opcode", "at %d: byte is %d, xdis says %d" % (o, op, q["op"]))
                        break
                    if q["a"] != arg:
                        fail("decode", "asmold-operand|%s" % name, "at %d %s: operand bytes (with EXTENDED_ARG) give %s, xdis %s" % (o, name, arg, q["a"]))
                        break
                    if tgt is not None and q["v"] != tgt:
                        fail("jump", "asmold-target|%s" % name, "at %d %s %s: target is %d, xdis says %s" % (o, name, arg, tgt, q["v"]))
                        break
                    if q["j"] != (o in labels):
                        fail("jump", "asmold-is_jump_target", "at %d %s: is_jump_target %s, jump operands %s" % (o, name, q["j"], sorted(labels)[:8]))
                        break
                    if arg is not None and op != tab.ext:
                        # the padded tables make every index resolvable: consts[i] = i, names n<i>, locals v<i>, cells c0-7 + f0-7
                        want_v = None
                        if op in tab.const and arg < (case.get("ntab") or ga.NTAB):
                            want_v = ("const", ["i", str(arg)])
                        elif op in tab.name and arg < (case.get("ntab") or ga.NTAB):
                            want_v = ("name", [sk, rw.hx(("n%d" % arg).encode())])
                        elif op in tab.local and arg < ga.NTAB:
                            want_v = ("local", [sk, rw.hx(("v%d" % arg).encode())])
                        elif op in tab.free and arg < 16:
                            want_v = ("free", [sk, rw.hx((("c%d" % arg) if arg < 8 else ("f%d" % (arg - 8))).encode())])
                        if want_v is not None and (q["k"], q["v"]) != want_v and not (q["k"] == want_v[0] and q["v"] and q["v"][0] in ("y", "t")
                                                                                      and want_v[1][0] in ("y", "t") and q["v"][1] == want_v[1][1]):
                            fail("argval", "asmold-argval|%s|%s" % (want_v[0], name), "at %d %s %s: operand names %s %s, xdis resolves %s %s" % (
                                o, name, arg, want_v[0], cn.summary(want_v[1]), q["k"], cn.summary(q["v"])))
                            break
        if "labels_err" in d:
            fail("labels", "findlabels-raised", "findlabels raised %s" % d["labels_err"])
        elif sorted(labels) != d.get("labels"):
            fail("labels", "asmold-findlabels", "findlabels %s, jump operands give %s" % (d.get("labels"), sorted(labels)))
        for a in self.aspects:
            for sig, msg in fails.get(a, []):
                res.fail("%s|%s|%s" % (self.id, a, sig), "%s: %s" % (v, msg))
        has_ext = any(r[1] == tab.ext for r in ref)
        res.nontrivial = has_ext or len(co_code) > 255 or bool(labels)
        res.key = [v, rw.hx(co_code)]
        res.evals = max(1, min(len(ref), len(case["items"]) + 3))
        if has_ext:
            res.classes.append("EXTENDED_ARG")
        return res

    # -- reference + xdis
    def reference(self, case, ctx):
        v = case["v"]
        if case["k"] in ("lnotab", "loctab"):
            return self.table_reference(case, ctx)
        if case["k"] == "asm":
            tab = self.tables(ctx, v)
            for it in case["items"]:
                if not isinstance(it, dict) or it.get("op") not in tab.opmap:
                    return {"reject": "malformed-asm: unknown opcode"}
            co_code, starts, info = ga.assemble(tab, case["items"])
            r = ctx.pool.ref(v).call("mkcode", fields=ga.code_fields(tab, co_code, rw.hx, ntab=case.get("ntab")), dis=True)
            if "reject" not in r and "referr" in r["dis"][0]:
                return {"reject": "reference-dis-cannot-render: " + r["dis"][0]["referr"].split(":")[0]}
            return r
        if case["k"] == "prog":
            return ctx.pool.ref(v).call("compile", src=case["src"], dis=True)
        return ctx.pool.ref(v).call("compile_file", path=case["path"], dis=True)

    corpus_aspects = ()

    def fixed_cases(self, ctx):
        if self.corpus_aspects:
            for rel in pd.corpus_files():
                if "dropbox" not in rel:
                    yield {"k": "corpus", "path": rel}
        if self.use_asm:
            # jumps across > 2^16 bytes / code units in every version: forward over the run, to the end, and back
            for v in OLD_ASM + list(self.versions):
                old = v in OLD_ASM
                tab = self.old_tables(ctx, v) if old else self.tables(ctx, v)
                vt = ga.vt(v)
                rep = 66000 if (vt < (3, 6) or vt >= (3, 10)) else 33000
                fwd = "JUMP_FORWARD"
                back = "JUMP_ABSOLUTE" if "JUMP_ABSOLUTE" in tab.opmap else "JUMP_BACKWARD"
                pad = "NOP" if "NOP" in tab.opmap else "POP_TOP"          # (NOP arrived in 2.4)
                items = [{"op": fwd, "arg": 0, "pre": 0, "to": 2}, {"op": pad, "arg": None, "pre": 0, "to": None, "rep": rep},
                         {"op": fwd, "arg": 0, "pre": 0, "to": -1}, {"op": back, "arg": 0, "pre": 0, "to": 0},
                         {"op": back, "arg": 0, "pre": 0, "to": 2}, {"op": pad, "arg": None, "pre": 0, "to": None}]
                yield {"k": "asmold" if old else "asm", "v": v, "items": items}
                for items in ga.jump_patterns(tab) + ga.opcode_sweeps(tab):
                    yield {"k": "asmold" if old else "asm", "v": v, "items": items}
                if vt < (3, 6) and v in ("2.7", "2.5", "2.2", "3.2", "3.5") and "LOAD_CONST" in tab.opmap and "LOAD_NAME" in tab.opmap:
                    # table indices beyond 2^16: the EXTENDED_ARG of byte code supplies bits 16-31 of an index, too
                    items = [{"op": "LOAD_CONST", "arg": 65541, "pre": 1, "to": None}, {"op": "LOAD_NAME", "arg": 65538, "pre": 1, "to": None},
                             {"op": "LOAD_CONST", "arg": 5, "pre": 1, "to": None}]
                    yield {"k": "asmold" if old else "asm", "v": v, "items": items, "ntab": 65600}

    def judge_corpus_internal(self, case, ctx):
        """corpus files (incl. versions with no interpreter): oracles internal to the decoded stream"""
        res = Result()
        path = os.path.join(pd.CORPUS_DIR, case.get("path", ""))
        if not os.path.isfile(path) or os.path.getsize(path) > (40000 if ctx.tier == "quick" else 10 ** 6):
            res.reject = "corpus-file-too-big-for-tier"
            return res
        rw.EXTRA_ROUTES[0] = "jump" in self.corpus_aspects
        try:
            d = rw.x_dump_file(path=path, want_dis=True, max_code=self.max_code(ctx))
        except Exception as e:
            res.reject = "xdis-cannot-load(C01's subject):%s" % type(e).__name__
            return res
        finally:
            rw.EXTRA_ROUTES[0] = False
        vs = ".".join(str(p) for p in d["header"]["version"][:2])
        c = pd.Cmp(vs)
        c.version = vs + ("pypy" if d["header"]["is_pypy"] else "")
        c.codeinfo = []
        for i, co in enumerate(d["dis"]):
            pd.internal_consistency(c, i, co)
        for a in self.corpus_aspects:
            for sig, msg in c.fails.get(a, []):
                res.fail("%s|corpus|%s|%s" % (self.id, a, sig), "%s: %s" % (case["path"], msg))
        res.evals = max(1, len(d["dis"]))
        res.nt_keys = [[case["path"], i] for i, co in enumerate(d["dis"]) if "instrs" in co and (
            co["codelen"] > 255 or any(x_["n"] == "EXTENDED_ARG" for x_ in co["instrs"]) or co.get("labels"))]
        res.classes = ["source:corpus", "corpus-version:" + c.version]
        res.sample = {"corpus_file": case["path"], "version": c.version, "code_objects": len(d["dis"]),
                      "oracle": "internal consistency (no reference interpreter needed)"}
        return res

    def judge(self, case, ctx):
        res = Result()
        if case.get("k") == "corpus" and self.corpus_aspects:
            return self.judge_corpus_internal(case, ctx)
        if case.get("k") == "asmold" and self.use_asm:
            return self.judge_asm_old(case, ctx)
        if case.get("k") not in ("prog", "stdlib", "asm", "lnotab", "loctab") or case.get("v") not in ALL_VERSIONS:
            res.reject = "malformed-case"
            return res
        if (case["k"] == "lnotab") != (pd.vt(case["v"]) < (3, 11)) and case["k"] in ("lnotab", "loctab"):
            res.reject = "malformed-case"
            return res
        v = case["v"]
        ref = self.reference(case, ctx)
        if "reject" in ref:
            res.reject = "compiler-rejects:" + ref["reject"].split(":")[0]
            return res
        data = rw.unhx(ref["header"]) + rw.unhx(ref["payload"])
        rw.EXTRA_ROUTES[0] = "argval" in self.aspects or "jump" in self.aspects
        try:
            x, err = pd.xdis_dump(data, self.max_code(ctx))
        finally:
            rw.EXTRA_ROUTES[0] = False
        res.sample = self.sample(case, ref)
        res.classes = ["version:" + v, "source:" + case["k"]]
        if err:
            if self.owns_loader_errors:
                res.fail("%s|%s|loader-raised|%s|%s" % (self.id, v, err[0], err[2]),
                         "load raised %s: %s" % (err[0], err[1]), {"tb": err[3]})
            else:
                res.reject = "xdis-cannot-load(C01's subject)"
            return res
        c = pd.compare_program(v, ref, x)
        for a in self.aspects:
            for sig, msg in c.fails.get(a, []):
                res.fail("%s|%s|%s" % (self.id, a, sig), msg)
        res.classes += sorted(c.classes)
        self.classify(case, ref, x, c, res)
        return res

    def sample(self, case, ref):
        if case["k"] == "lnotab":
            return {"version": case["v"], "kind": "drawn line table", "table_hex": case["table"], "first_line": case["first"],
                    "code_len": case["codelen"]}
        if case["k"] == "loctab":
            return {"version": case["v"], "kind": "drawn location + exception tables", "first_line": case["first"],
                    "entries": case["entries"][:6], "exception_entries": case.get("exc", [])[:4]}
        if case["k"] == "asm":
            return {"version": case["v"], "kind": "assembled code object",
                    "items": ["%s %s%s%s" % (i["op"], i.get("arg"), " +%dpre" % i["pre"] if i.get("pre") else "",
                                             " ->%s" % i["to"] if i.get("to") is not None else "") for i in case["items"][:8]]}
        if case["k"] == "prog":
            src = case["src"]
            return {"version": case["v"], "kind": "generated program", "lines": src.count("\n"),
                    "source_head": src[:300], "code_objects": len(ref.get("dis", []))}
        return {"version": case["v"], "kind": "stdlib file", "path": case["path"],
                "code_objects": len(ref.get("dis", []))}

    def classify(self, case, ref, x, c, res):
        raise NotImplementedError
