"""Base for the program-differential properties (C01-C05, C17)."""
import os

from hypothesis import strategies as st

from vf import canon as cn
from vf import progdiff as pd
from vf import refworker as rw
from vf.gen import prog as gp
from vf.pool import ALL_VERSIONS
from vf.run import Result


class ProgProp:
    aspects = ()
    versions = ALL_VERSIONS
    owns_loader_errors = False
    quick_max_code = 2400
    thorough_max_code = 6000
    budgets = {"quick": {"shards": 14, "examples": 55, "seconds": 80},
               "thorough": {"shards": 16, "examples": 1500, "seconds": 1100}}
    use_corpus = False

    def max_code(self, ctx):
        return self.quick_max_code if ctx.tier == "quick" else self.thorough_max_code

    def setup(self, ctx):
        pass

    def strategy(self, ctx):
        max_size = 30000 if ctx.tier == "quick" else 150000
        versions = self.versions

        @st.composite
        def case(draw):
            v = draw(st.sampled_from(versions))
            k = draw(st.sampled_from(["prog", "prog", "prog", "stdlib", "stdlib"]))
            if k == "prog":
                src = draw(gp.programs(v, size=draw(st.integers(2, 5))))
                return {"k": "prog", "v": v, "src": src}
            files = pd.stdlib_files(ctx, v, max_size)
            return {"k": "stdlib", "v": v, "path": draw(st.sampled_from(files))}
        return case()

    # -- reference + xdis
    def reference(self, case, ctx):
        v = case["v"]
        if case["k"] == "prog":
            return ctx.pool.ref(v).call("compile", src=case["src"], dis=True)
        return ctx.pool.ref(v).call("compile_file", path=case["path"], dis=True)

    def judge(self, case, ctx):
        res = Result()
        if case.get("k") not in ("prog", "stdlib") or case.get("v") not in ALL_VERSIONS:
            res.reject = "malformed-case"
            return res
        v = case["v"]
        ref = self.reference(case, ctx)
        if "reject" in ref:
            res.reject = "compiler-rejects:" + ref["reject"].split(":")[0]
            return res
        data = rw.unhx(ref["header"]) + rw.unhx(ref["payload"])
        x, err = pd.xdis_dump(data, self.max_code(ctx))
        res.sample = self.sample(case, ref)
        res.classes = ["version:" + v, "source:" + case["k"]]
        if err:
            if self.owns_loader_errors:
                res.fail("%s|%s|loader-raised|%s|%s" % (self.id, v, err[0], err[2]),
                         "load raised %s: %s" % (err[0], err[1]), {"tb": err[3]})
            else:
                res.reject = "xdis-cannot-load(C01's subject)"
            return res
        c = pd.compare_program(v, ref, x)
        for a in self.aspects:
            for sig, msg in c.fails.get(a, []):
                res.fail("%s|%s|%s" % (self.id, a, sig), msg)
        res.classes += sorted(c.classes)
        self.classify(case, ref, x, c, res)
        return res

    def sample(self, case, ref):
        if case["k"] == "prog":
            src = case["src"]
            return {"version": case["v"], "kind": "generated program", "lines": src.count("\n"),
                    "source_head": src[:300], "code_objects": len(ref.get("dis", []))}
        return {"version": case["v"], "kind": "stdlib file", "path": case["path"],
                "code_objects": len(ref.get("dis", []))}

    def classify(self, case, ref, x, c, res):
        raise NotImplementedError
