"""C18 - each call's result is independent of what the process did before (stateful)."""
import json
import os

import hypothesis
from hypothesis import HealthCheck, Phase, settings
from hypothesis import strategies as st
from hypothesis.stateful import RuleBasedStateMachine, invariant, rule, run_state_machine_as_test

from vf import progdiff as pd
from vf import refworker as rw
from vf.gen import values as gv
from vf.pool import HOSTS, Worker
from vf.run import Result, h8

FORMATS = ["classic", "bytes", "extended", "extended-bytes", "xasm", "header"]
OPC_VERSIONS = ["1.0", "1.3", "1.5", "2.2", "2.4", "2.5", "2.6", "2.7", "3.0", "3.2", "3.3", "3.4", "3.5", "3.6", "3.7",
                "3.8", "3.9", "3.10", "3.11", "3.12", "3.13"]
STD_VERSIONS = ["2.7", "3.3", "3.6", "3.7", "3.8", "3.9", "3.10", "3.11", "3.12", "3.13"]
CODE_SRCS = ["x = 1\n", "def f(a):\n    return a + 1\n", "class A:\n    b = (1, 'two', 3.0)\n"]


# module-level containers that legitimately grow with use (none so far)
GLOBALS_MAY_CHANGE = set()


def file_pool():
    files = []
    for rel in pd.corpus_files():
        p = os.path.join(pd.CORPUS_DIR, rel)
        if os.path.getsize(p) <= 2500:
            files.append(rel)
    # at most a few per version directory, always the dropbox and PyPy ones
    out, per = [], {}
    for rel in files:
        d = rel.split("/")[0]
        per[d] = per.get(d, 0) + 1
        if per[d] <= 3:
            out.append(rel)
    for rel in pd.corpus_files():
        if "dropbox" in rel and rel not in out:
            out.append(rel)
    return sorted(out)


def op_strategy(files, generated=()):
    plain = gv.strat("v", False, False).map(lambda t: gv.expand(gv.resolve(t, [])))
    small = st.one_of(st.integers(-5, 5).map(lambda n: ["i", str(n)]), st.just(["T", [["i", "1"], ["t", "6162"]]]), plain)
    f = st.sampled_from(files)
    if generated:
        # the generated files are there for what only they reach: drawn as often as all corpus files together
        f = st.one_of(f, st.sampled_from(sorted(generated)))
    return st.one_of(
        f.map(lambda p: {"k": "load", "f": p}),
        st.tuples(f, st.sampled_from([10, 30, 50, 70, 90, 99])).map(lambda p: {"k": "load_cut", "f": p[0], "cut": p[1]}),
        st.tuples(f, st.sampled_from(FORMATS)).map(lambda p: {"k": "dis", "f": p[0], "fmt": p[1]}),
        st.sampled_from(OPC_VERSIONS).map(lambda v: {"k": "opc", "v": v}),
        st.tuples(st.sampled_from(STD_VERSIONS), st.sampled_from(["opname", "stack_effect", "hasconst"]), st.integers(0, 255),
                  st.integers(0, 3)).map(lambda p: {"k": "std", "v": p[0], "q": [p[1], p[2]] + ([p[3]] if p[1] == "stack_effect" else [])}),
        f.map(lambda p: {"k": "bc", "f": p}),
        f.map(lambda p: {"k": "stdbc", "f": p}),
        f.map(lambda p: {"k": "labels", "f": p}),
        f.map(lambda p: {"k": "lines2", "f": p}),
        st.tuples(st.sampled_from(["3.10.17", "3.8.99", "2.7.19", "3.6.20", "3.10", "3.8", "2.7"]),
                  st.sampled_from([None, "pypy", ""])).map(lambda p: {"k": "opcmod", "v": p[0], "variant": p[1]}),
        f.map(lambda p: {"k": "showcode", "f": p}),
        small.map(lambda v: {"k": "mdumps", "value": v}),
        st.tuples(small, st.sampled_from([0, 1])).map(lambda p: {"k": "mloads", "value": p[0], "ver": p[1]}),
        st.tuples(st.sampled_from(CODE_SRCS), st.sampled_from([0, 1, 2])).map(lambda p: {"k": "mloads_code", "src": p[0], "ver": p[1]}),
        st.just({"k": "tables"}),
    )


def opkey(host, op):
    return host + "|" + json.dumps(op, sort_keys=True)


class C18:
    id = "C18"
    rule = ("Hypothesis RuleBasedStateMachine: each machine owns a fresh xdis process (host drawn from 3.8-3.13) and "
            "applies 5-30 public operations with generated arguments: load_module(f), disassemble_file(f, one of six "
            "formats), get_opcode(v), make_std_api(v) + a query, Bytecode iteration, marsh.dumps(v), marsh.loads of plain "
            "values and of marshalled code, over a pool of corpus files of every version incl. the dropbox and PyPy "
            "files; invariant after every step: the result equals the result of the SAME operation done as the first "
            "thing in a brand-new interpreter (memoised per operation), a repeat of the call gives the same result, and a "
            "digest of every opcode table equals the fresh-process digest; non-trivial = history touching >= 2 bytecode "
            "versions and >= 2 operation kinds before the probe; distinct = operation sequence")
    assumptions = ["an exception is a result too (compared by type and message); object addresses are normalised",
                   "explicit opcode remapping (the documented exception) is not in the operation set"]
    budgets = {"quick": {"shards": 14, "examples": 44, "seconds": 80},
               "thorough": {"shards": 16, "examples": 400, "seconds": 1500}}
    minimise = True

    def setup(self, ctx):
        self.files = file_pool() + self.generated_files(ctx)
        if "fresh" not in ctx.cache:
            ctx.cache["fresh"] = {}

    def generated_files(self, ctx):
        """files no corpus has: line numbers >= 1000 (column widths, multi-entry line tables)"""
        out = []
        gen = os.path.join(ctx.scratch, "gen")
        os.makedirs(gen, exist_ok=True)
        src = "x = 1\n" + "\n" * 1200 + "def f(a):\n    for i in a:\n        if i:\n            continue\n    return a\n" + "\n" * 150 + "y = f([2])\n"
        for v in ("2.7", "3.6", "3.9", "3.12"):
            r = ctx.pool.ref(v).call("compile", src=src, dis=False, filename="bigline.py")
            name = "gen/bigline_%s.pyc" % v.replace(".", "")
            with open(os.path.join(ctx.scratch, name), "wb") as f:
                f.write(rw.unhx(r["header"]) + rw.unhx(r["payload"]))
            out.append("@" + name)
        # integer constants of > 4300 digits (Python 2 long / Python 3 int): the host's int->str limit is process-wide state
        for v, lit in (("2.7", "x = 0x" + "f" * 5000 + "\ny = 12345678901234567890\n"), ("3.9", "x = 0x" + "f" * 5000 + "\ny = (x, 'z')\n"),
                       ("3.12", "x = 0x" + "e" * 4000 + "\n")):
            r = ctx.pool.ref(v).call("compile", src=lit, dis=False, filename="hugeint.py")
            name = "gen/hugeint_%s.pyc" % v.replace(".", "")
            with open(os.path.join(ctx.scratch, name), "wb") as f:
                f.write(rw.unhx(r["header"]) + rw.unhx(r["payload"]))
            out.append("@" + name)
        # files of interim (alpha / beta) releases: recognised, and refused with a message - every time
        import struct
        for magic, donor, hl in ((3330, "bytecode_3.5", 12), (3280, "bytecode_3.4", 12), (62111, "bytecode_2.5", 8), (3141, "bytecode_3.1", 8)):
            dd = os.path.join(pd.CORPUS_DIR, donor)
            small = sorted((os.path.getsize(os.path.join(dd, n)), n) for n in os.listdir(dd) if n.endswith(".pyc"))
            if not small:
                continue
            data = open(os.path.join(dd, small[0][1]), "rb").read()
            name = "gen/interim_%d.pyc" % magic
            with open(os.path.join(ctx.scratch, name), "wb") as f:
                f.write(struct.pack("<H", magic) + data[2:])
            out.append("@" + name)
        # the Dropbox sample (a loader of its own, which patches and restores shared tables) is drawn as often as they are
        self.generated = out + [rel for rel in pd.corpus_files() if "dropbox" in rel]
        return out

    def fresh(self, ctx, host, op):
        k = opkey(host, op)
        memo = ctx.cache["fresh"]
        if k not in memo:
            # a pristine process per host that only ever forks: the child is a process whose whole history is
            # "import xdis"; every 50th reference is additionally taken from a really new interpreter
            n = ctx.extra.get("fresh_processes", 0)
            memo[k] = ctx.pool.get(host, "host", "zygote").call("x_fresh", do=op)["result"]
            if n % 50 == 0:
                w = Worker(host, "host")
                try:
                    cold = w.call("x_do", do=op)["result"]
                finally:
                    w.stop()
                if cold != memo[k]:
                    from vf.pool import HarnessError
                    raise HarnessError("forked-fresh and new-interpreter results differ for %s: %s vs %s" % (k, memo[k], cold))
            ctx.extra["fresh_processes"] = n + 1
        return memo[k]

    def strategy(self, ctx):
        return None          # driven by bulk(): the state machine

    # replay / minimisation entry: a case is {"host":..., "ops":[...]}
    def judge(self, case, ctx):
        res = Result()
        host, ops = case.get("host"), case.get("ops")
        if host not in HOSTS or not isinstance(ops, list) or not ops:
            res.reject = "malformed-case"
            return res
        w = Worker(host, "host")
        try:
            self.run_history(ctx, host, ops, w, res)
        finally:
            w.stop()
        return res

    def run_history(self, ctx, host, ops, w, res):
        versions, kinds = set(), set()
        for i, op in enumerate(ops):
            if not isinstance(op, dict) or "k" not in op:
                res.reject = "malformed-case"
                return
            self.step(ctx, host, op, w, res, i, ops)
            if i == len(ops) - 1:
                self.check_globals(ctx, host, ops, w, res)
            kinds.add(op["k"])
            versions.add(op.get("v") or (op.get("f") or "").split("/")[0])
        versions.discard("")
        res.nontrivial = len(versions) >= 2 and len(kinds) >= 2
        res.key = [host, ops]
        res.evals = len(ops)
        res.classes = ["host:" + host, "len:%d" % (10 * (len(ops) // 10))] + sorted("op:" + k for k in kinds)
        res.sample = {"host": host, "history": [self.short(o) for o in ops[:12]], "length": len(ops)}

    def step(self, ctx, host, op, w, res, i, ops):
        got = w.call("x_do", do=op)["result"]
        exp = self.fresh(ctx, host, op)
        if got != exp:
            prev = sorted(set(o["k"] + ":" + (o.get("f") or o.get("v") or "") for o in ops[:i]))
            res.fail("C18|%s|differs-from-fresh-process|%s" % (op["k"], self.blame(ops[:i])),
                     "step %d %s: after %d earlier operations the result is %s; first thing in a fresh process: %s (history: %s)" % (
                         i, self.short(op), i, json.dumps(got)[:200], json.dumps(exp)[:200], prev[:8]))
        if isinstance(got, dict) and "first" in got and "second" in got and got["first"] != got["second"]:
            res.fail("C18|%s|second-answer-differs" % op["k"], "step %d %s: the same loaded code objects give other line starts the second time they are asked" % (
                i, self.short(op)))
        again = w.call("x_do", do=op)["result"]
        if again != got:
            res.fail("C18|%s|repeat-differs" % op["k"], "step %d %s: repeating the call gives %s then %s" % (
                i, self.short(op), json.dumps(got)[:160], json.dumps(again)[:160]))
        tabs = w.call("x_do", do={"k": "tables"})["result"]
        ftabs = self.fresh(ctx, host, {"k": "tables"})
        if tabs != ftabs:
            changed = sorted(k for k in set(tabs) | set(ftabs) if tabs.get(k) != ftabs.get(k)) if isinstance(tabs, dict) and isinstance(ftabs, dict) else ["?"]
            res.fail("C18|tables-changed|after:%s" % op["k"], "step %d %s altered opcode tables %s" % (i, self.short(op), changed[:6]))

    def check_globals(self, ctx, host, ops, w, res):
        """at the end of a history: no call altered module-level tables that later calls read - every module-level
        container of every loaded xdis module, against a fresh process that did only the last operation"""
        i = len(ops) - 1
        op = ops[-1]
        g = w.call("x_do", do={"k": "globals"})["result"]
        fg = self.fresh(ctx, host, {"k": "globals_after", "op": op})
        if isinstance(g, dict) and isinstance(fg, dict) and "raised" not in g and "raised" not in fg:
            for mod in sorted(set(g) & set(fg)):
                for attr in sorted(set(g[mod]) & set(fg[mod])):
                    if g[mod][attr] != fg[mod][attr] and (mod, attr) not in GLOBALS_MAY_CHANGE:
                        res.fail("C18|module-table-changed|%s.%s" % (mod, attr), "after %d operations ending in %s: %s.%s differs from its value in a "
                                 "process that did only that last operation (history: %s)" % (i + 1, self.short(op), mod, attr, sorted(set(o["k"] for o in ops[:i]))[:8]))

    @staticmethod
    def blame(prefix):
        if any("dropbox" in (o.get("f") or "") for o in prefix):
            return "after-dropbox-file"
        return "after:" + "+".join(sorted(set(o["k"] for o in prefix)))[:60]

    @staticmethod
    def short(op):
        s = op["k"] + "(" + ",".join(str(v)[:40] for k, v in sorted(op.items()) if k != "k") + ")"
        return s[:120]

    def bulk(self, ctx, runner):
        prop = self
        b = self.budgets[ctx.tier]
        ops = op_strategy(self.files, getattr(self, "generated", ()))
        hseed = int(h8("%s|%d|%d" % (self.id, ctx.seed, ctx.shard)), 16) % (2 ** 63)

        class History(RuleBasedStateMachine):
            def __init__(self):
                super().__init__()
                self.host = None
                self.w = None
                self.ops = []
                self.res = Result()
                self.dead = False

            @rule(host=st.sampled_from(HOSTS), op=ops)
            def operation(self, host, op):
                if ctx.out_of_time():
                    runner.stats.budget_hit = True
                    self.dead = True
                    return
                if self.w is None:
                    self.host = host
                    self.w = Worker(host, "host")
                self.ops.append(op)
                prop.step(ctx, self.host, op, self.w, self.res, len(self.ops) - 1, self.ops)

            @invariant()
            def never_raises(self):
                pass        # failures are collected (the search must go on past known findings) and judged at teardown

            def teardown(self):
                if self.w is not None:
                    if self.ops and not self.dead:
                        try:
                            prop.check_globals(ctx, self.host, self.ops, self.w, self.res)
                        except Exception:
                            pass
                    self.w.stop()
                if self.ops and not self.dead:
                    versions, kinds = set(), set()
                    for o in self.ops:
                        kinds.add(o["k"])
                        versions.add(o.get("v") or (o.get("f") or "").split("/")[0])
                    versions.discard("")
                    r = self.res
                    r.nontrivial = len(versions) >= 2 and len(kinds) >= 2
                    r.key = [self.host, self.ops]
                    r.evals = len(self.ops)
                    r.classes = ["host:" + self.host, "len:%d" % (10 * (len(self.ops) // 10))] + sorted("op:" + k for k in kinds)
                    r.sample = {"host": self.host, "history": [prop.short(o) for o in self.ops[:12]], "length": len(self.ops)}
                    runner.ingest({"host": self.host, "ops": self.ops}, r, "stateful")

        History.TestCase.settings = settings(max_examples=b["examples"], stateful_step_count=30, deadline=None, database=None,
                                             phases=[Phase.generate], suppress_health_check=list(HealthCheck),
                                             report_multiple_bugs=False)
        run_state_machine_as_test(hypothesis.seed(hseed)(History), settings=History.TestCase.settings)


PROP = C18()
