"""C06 - pyc header is decoded per the file format of the bytecode's version."""
import io
import os
import re
import struct

from hypothesis import strategies as st

from vf import canon as cn
from vf import magicreg
from vf import progdiff as pd
from vf import refworker as rw
from vf.pool import HarnessError
from vf.ref import refmarshal as rm
from vf.run import Result

PEP552 = ["3.7", "3.8", "3.9", "3.10", "3.11", "3.12", "3.13"]


def model(vt, body):
    """Format model: (timestamp, size, hash, header_len) from the bytes after the magic."""
    w = struct.unpack("<III", body[:12])
    if vt < (3, 3):
        return w[0], None, None, 8
    if vt < (3, 7):
        return w[0], w[1], None, 12
    if w[0] & 1:
        return None, None, struct.unpack("<Q", body[4:12])[0], 16
    return w[1], w[2], None, 16


class C06:
    id = "C06"
    rule = ("case = (magic of a final release 1.5-3.13 from CPython's registry, the 1.0-1.4 magics and the PyPy magics "
            "of the corpus; 32-bit flag word biased to 0..3 and to values whose high bytes are odd; 32-bit "
            "timestamp/size; 64-bit hash; payload = refmarshal code object for that version carrying a unique "
            "marker constant, or a corpus payload for 1.0-2.0 / PyPy); oracle = format model (timestamp only before "
            "3.3; +size 3.3-3.6; from 3.7 bit 0 of the little-endian flag word selects 64-bit hash vs "
            "timestamp+size), validated against real py_compile output of 3.7-3.13 in all three invalidation modes; "
            "the 7-tuple and the `-F header` text must both show exactly those fields and the marker code object; "
            "non-trivial = hash-based header, pre-3.3 header, or flag word >= 4; distinct = header bytes")
    assumptions = ["PEP 552 / importlib._bootstrap_external define the header; flag words with bits outside 0b11 are "
                   "invalid for CPython: xdis may raise ImportError, but if it returns the fields must follow bit 0"]
    budgets = {"quick": {"shards": 8, "examples": 2500, "seconds": 60},
               "thorough": {"shards": 16, "examples": 15000, "seconds": 600}}

    def setup(self, ctx):
        fm = magicreg.final_magics()
        self.magics = {}
        for (mj, mn), m in fm.items():
            self.magics["%d.%d" % (mj, mn)] = m
        for (mj, mn), m in magicreg.OLD_MAGICS.items():
            if (mj, mn) != (1, 2):          # 1.2 shares the magic of 1.1: the file format cannot tell them apart
                self.magics["%d.%d" % (mj, mn)] = m
        # corpus payloads for versions refmarshal does not emit, and PyPy variants
        self.corpus = {}
        x = rw.xd()
        for rel in pd.corpus_files():
            d = rel.split("/")[0].replace("bytecode_", "")
            if d in ("2.5dropbox",):
                continue
            path = os.path.join(pd.CORPUS_DIR, rel)
            if os.path.getsize(path) > 6000:
                continue
            data = open(path, "rb").read()
            magic_int = struct.unpack("<H", data[:2])[0]
            try:
                vt = x.magics.magic_int2tuple(magic_int)[:2]
            except Exception:
                continue
            key = d if "pypy" in d else "%d.%d" % vt
            if "pypy" in d:
                key = "pypy:%d:%d.%d" % (magic_int, vt[0], vt[1])
            elif vt >= (2, 1):
                continue
            hl = 8 if vt < (3, 3) else (12 if vt < (3, 7) else 16)
            self.corpus.setdefault(key, []).append((rel, magic_int, vt, data[hl:]))
        # PyPy's own magic numbers (see c10.PYPY) with a marker payload in the marshal format of that language level
        for magic_int, level in ((64, "3.3"), (112, "3.5"), (160, "3.6"), (192, "3.6"), (240, "3.7"), (256, "3.8"), (336, "3.9"), (384, "3.10")):
            vt = rm.vtuple(level)
            self.corpus.setdefault("pypy:%d:%d.%d" % (magic_int, vt[0], vt[1]), []).append(("synthetic", magic_int, vt, None))
        # every other magic of CPython's registry (alphas, betas, release candidates) in the series whose header layout
        # did not change mid-series (3.3 gained the size word and 3.7 the PEP 552 layout between two alphas)
        self.interim = {}
        finals = set(self.magics.values())
        for (mj, mn, suf, magic, _src) in magicreg.registry_rows():
            if magic not in finals and (mj, mn) not in ((3, 3), (3, 7)) and (mj, mn) >= (2, 1):
                self.interim["reg:%d" % magic] = (magic, (mj, mn))
        self.keys = sorted(self.magics) + sorted(k for k in self.corpus if k.startswith("pypy:")) + sorted(self.interim)

    def strategy(self, ctx):
        word = st.one_of(st.sampled_from([0, 1, 2, 3, 0x01000000, 0x00000100, 0x00010001, 0x01000002, 4, 0xFFFFFFFF,
                                          0x80000000, 0x00000005]),
                         st.integers(0, 3), st.integers(0, 2 ** 32 - 1))
        w32 = st.one_of(st.sampled_from([0, 1, 0x7FFFFFFF, 0x80000000, 0xFFFFFFFF, 1700000000]), st.integers(0, 2 ** 32 - 1))
        return st.tuples(st.sampled_from(self.keys), word, w32, w32, st.integers(0, 999999)).map(
            lambda p: {"t": "gen", "key": p[0], "w1": p[1], "w2": p[2], "w3": p[3], "marker": p[4]})

    def fixed_cases(self, ctx):
        for v in PEP552:
            for mode in ("TIMESTAMP", "CHECKED_HASH", "UNCHECKED_HASH"):
                yield {"t": "pycompile", "v": v, "mode": mode}

    # ------------------------------------------------------------------
    def judge(self, case, ctx):
        res = Result()
        t = case.get("t")
        if t == "pycompile":
            return self.judge_pycompile(case, ctx, res)
        if t != "gen" or case.get("key") not in self.keys:
            res.reject = "malformed-case"
            return res
        key = case["key"]
        marker = None
        if key.startswith("reg:"):
            magic_int, vt = self.interim[key]
            is_pypy = False
            payload = None      # header fields only: the code layout of alphas and betas is not documented anywhere
        elif key.startswith("pypy:"):
            rel, magic_int, vt, payload = self.corpus[key][case["marker"] % len(self.corpus[key])]
            expect_tree = None
            is_pypy = True
            if payload is None:
                marker = ["i", str(case["marker"])]
                payload, _ = rm.encode(rm.template_code_tree("%d.%d" % vt, ["T", [marker, ["N"]]]), "%d.%d" % vt)
        else:
            vt = rm.vtuple(key)
            magic_int = self.magics[key]
            is_pypy = False
            if vt >= (2, 0):
                marker = ["i", str(case["marker"])]
                tree = rm.template_code_tree(key, ["T", [marker, ["N"]]])
                payload, _ = rm.encode(tree, key)
            elif key in self.corpus:
                rel, _, _, payload = self.corpus[key][case["marker"] % len(self.corpus[key])]
            else:
                payload = None      # 2.0: no payload source; header fields only
        w1, w2, w3 = case["w1"] & 0xFFFFFFFF, case["w2"] & 0xFFFFFFFF, case["w3"] & 0xFFFFFFFF
        body = struct.pack("<III", w1, w2, w3)
        ts, size, sip, hl = model(vt, body)
        magic = struct.pack("<H", magic_int) + (b"\r\n" if magic_int not in (39170, 39171) else b"\x99\x00")
        header = magic + body[:hl - 4]
        data = header + (payload if payload is not None else b"N")
        # load_module wants >= 50 bytes (trailing bytes are not read): exactly 50 is the smallest valid file
        want_len = 50 if case["marker"] % 2 else 60
        if len(data) < want_len:
            data += b"\0" * (want_len - len(data))
        path = os.path.join(ctx.scratch, "h_%s.pyc" % ("pypy38" if is_pypy and magic_int in (3413, 3414) else "x"))
        with open(path, "wb") as f:
            f.write(data)
        x = rw.xd()
        sigv = "%d.%d%s" % (vt[0], vt[1], "pypy" if is_pypy else "")
        hash_based = vt >= (3, 7) and bool(w1 & 1)
        res.nontrivial = hash_based or vt < (3, 3) or (vt >= (3, 7) and w1 >= 4)
        res.key = rw.hx(header)
        res.classes = ["version:" + sigv, "hash-based" if hash_based else ("pep552-timestamp" if vt >= (3, 7) else (
            "ts+size" if vt >= (3, 3) else "ts-only"))]
        if vt >= (3, 7) and w1 >= 4:
            res.classes.append("flag-word>=4")
        res.sample = {"version": sigv, "magic": magic_int, "header_hex": rw.hx(header), "expect": {
            "timestamp": ts, "source_size": size, "sip_hash": sip}}
        try:
            tup = x.load.load_module(path, get_code=payload is not None)
        except ImportError as e:
            if key.startswith("reg:") and "interim" in str(e):
                res.classes.append("interim-magic-refused")
                return res
            if vt >= (3, 7) and (w1 & ~0b11):
                res.classes.append("invalid-flags-rejected")
                return res
            res.fail("C06|%s|load-raised-ImportError" % sigv, "valid header %s rejected: %s" % (rw.hx(header), str(e)[:200]))
            return res
        except Exception as e:
            res.fail("C06|%s|load-raised|%s" % (sigv, type(e).__name__), "header %s: %s: %s" % (rw.hx(header), type(e).__name__, e))
            return res
        version, g_ts, g_magic, co, g_pypy, g_size, g_sip = tup
        if tuple(version[:2]) != tuple(vt):
            res.fail("C06|%s|version" % sigv, "magic %d is %s, load_module says %s" % (magic_int, vt, version))
        if g_magic != magic_int and not is_pypy:
            res.fail("C06|%s|magic_int" % sigv, "magic %d reported as %s" % (magic_int, g_magic))
        for nm, exp, got in (("timestamp", ts, g_ts), ("source_size", size, g_size), ("sip_hash", sip, g_sip)):
            if exp != got:
                res.fail("C06|%s|%s|%s" % ("pep552" if vt >= (3, 7) else ("pre33" if vt < (3, 3) else "33-36"), nm,
                                           "flags=%d" % (w1 & 3) if vt >= (3, 7) and w1 < 4 else ("flags-high" if vt >= (3, 7) else "")),
                         "%s header %s: %s should be %r, load_module gives %r" % (sigv, rw.hx(header), nm, exp, got))
        if payload is not None:
            # the header fields do not depend on whether the caller asked for the code object as well
            try:
                t2 = x.load.load_module(path, get_code=False)
                for nm, exp, got in (("timestamp", ts, t2[1]), ("source_size", size, t2[5]), ("sip_hash", sip, t2[6]),
                                     ("version", tuple(version), tuple(t2[0])), ("magic_int", g_magic, t2[2])):
                    if exp != got:
                        res.fail("C06|get_code=False|%s" % nm, "%s header %s: with get_code=False %s should be %r, load_module gives %r" % (
                            sigv, rw.hx(header), nm, exp, got))
            except Exception as e:
                res.fail("C06|get_code=False|raised|%s" % type(e).__name__, "%s header %s: get_code=False raised %s: %s" % (
                    sigv, rw.hx(header), type(e).__name__, e))
        if payload is not None and marker is not None:
            try:
                consts = rw.xcanon(co.co_consts, vt < (3, 0))
            except Exception as e:
                consts = ["?", str(e)]
            if consts != ["T", [marker, ["N"]]]:
                res.fail("C06|%s|code-not-after-header" % sigv, "marker constant %s not found: co_consts = %s" % (marker, cn.summary(consts)))
        # -F header text
        if payload is not None:
            out = io.StringIO()
            try:
                x.disasm.disassemble_file(path, out, "header")
                txt = out.getvalue()
                shown = {
                    "timestamp": _num(re.search(r"^# Timestamp in code: (\d+)", txt, re.M)),
                    "source_size": _num(re.search(r"^# Source code size mod 2\*\*32: (\d+) bytes", txt, re.M)),
                    "sip_hash": _num(re.search(r"^# SipHash:\s+0x([0-9a-f]+)", txt, re.M), 16),
                }
                m = re.search(r"^# (?:PyPy |Graal )?Python bytecode (\d+)\.(\d+)[.\d]* \((\d+)\)", txt, re.M)
                for nm, exp in (("timestamp", ts), ("source_size", size), ("sip_hash", sip)):
                    if shown[nm] != exp:
                        res.fail("C06|header-listing|%s" % nm, "%s: -F header shows %s = %r, expected %r" % (sigv, nm, shown[nm], exp))
                if not m or (int(m.group(1)), int(m.group(2))) != tuple(vt):
                    res.fail("C06|header-listing|version", "%s: -F header banner %r" % (sigv, txt.splitlines()[1] if txt else ""))
            except Exception as e:
                res.fail("C06|header-listing|raised|%s" % type(e).__name__, "%s: -F header raised %s: %s" % (sigv, type(e).__name__, e))
        return res

    def judge_pycompile(self, case, ctx, res):
        v, mode = case["v"], case["mode"]
        if v not in PEP552:
            res.reject = "malformed-case"
            return res
        src = os.path.join(ctx.scratch, "m_%s.py" % v.replace(".", ""))
        with open(src, "w") as f:
            f.write("marker = %r\n" % ("%s-%s" % (v, mode)))
        out = os.path.join(ctx.scratch, "m_%s_%s.pyc" % (v.replace(".", ""), mode))
        r = ctx.pool.ref(v).call("pycompile", src_path=src, out_path=out, mode=mode)
        data = rw.unhx(r["data"])
        vt = rm.vtuple(v)
        ts, size, sip, hl = model(vt, data[4:16])
        flags = struct.unpack("<I", data[4:8])[0]
        want_flags = {"TIMESTAMP": 0, "CHECKED_HASH": 3, "UNCHECKED_HASH": 1}[mode]
        if flags != want_flags or (sip is not None) != (mode != "TIMESTAMP"):
            raise HarnessError("header model disagrees with py_compile of %s in mode %s (flags %d)" % (v, mode, flags))
        ctx.extra["oracle_selfchecks"] = ctx.extra.get("oracle_selfchecks", 0) + 1
        x = rw.xd()
        res.nontrivial = True
        res.key = rw.hx(data[:16])
        res.classes = ["version:" + v, "real-py_compile:" + mode]
        res.sample = {"version": v, "py_compile_mode": mode, "header_hex": rw.hx(data[:16])}
        try:
            tup = x.load.load_module(out)
        except Exception as e:
            res.fail("C06|%s|py_compile|load-raised|%s" % (v, type(e).__name__), "%s %s: %s" % (v, mode, e))
            return res
        for nm, exp, got in (("timestamp", ts, tup[1]), ("source_size", size, tup[5]), ("sip_hash", sip, tup[6])):
            if exp != got:
                res.fail("C06|pep552|%s|flags=%d" % (nm, flags), "%s py_compile %s: %s should be %r, load_module gives %r" % (v, mode, nm, exp, got))
        return res


def _num(m, base=10):
    return int(m.group(1), base) if m else None


PROP = C06()
