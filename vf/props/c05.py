"""C05 - line-number mapping for every line-table format."""
from vf.props.progbase import ProgProp


class C05(ProgProp):
    id = "C05"
    use_tables = True
    aspects = ("lines",)
    rule = ("case = (bytecode version, program) with drawn line gaps (0..400 blank lines, multi-line expressions, "
            "decorators) / stdlib sample; oracle: list(opc.findlinestarts(code)) == list(dis.findlinestarts) of the "
            "producing CPython and starts_line of every instruction (dup_lines=False) == dis's; also drawn line tables "
            "(any lnotab byte pairs; well-formed 3.10 range tables; 3.11+ location tables of every entry form) attached "
            "to native code objects, and - inside workers of hosts 3.8-3.13 - native code objects, their "
            "codeType2Portable copies and their marshal round trip against the host's dis; offset2line(q, starts) against a linear-scan model on drawn sorted "
            "start lists; non-trivial = "
            "line table with a |delta| >= 128 or a decreasing line; distinct = (version, line starts)")
    assumptions = ["CPython's dis.findlinestarts is ground truth; 3.13 starts_line is a bool: line_number is used"]

    def fixed_cases(self, ctx):
        for c in super().fixed_cases(ctx):
            yield c
        # every table once with line increments of 128 and more, and with offsets past the end of the code
        for name in self.table_names():
            even = self.table_vt(name) >= (3, 6)
            for tab, n in (("06c8" if even else "05c8", 40), ("0aff0a8006ff", 60), ("fe01fe7f0280", 600), ("1401", 10)):
                yield {"k": "tabfam", "opc": name, "table": tab, "first": 7, "codelen": n}

    def strata(self, ctx):
        from hypothesis import strategies as st
        from vf.gen import prog as gp
        from vf.gen import tables as gt
        from vf.pool import HOSTS
        out = super().strata(ctx)
        for h in HOSTS:
            out.append(["host:" + h, st.integers(2, 4).flatmap(lambda n, h=h: gp.programs(h, size=n, bulk=False)).map(
                lambda src, h=h: {"k": "host", "host": h, "src": src}), 2])
        # offset2line(): sorted (offset, line) lists and query offsets; model = linear scan
        @st.composite
        def o2l(draw):
            offs = sorted(draw(st.lists(st.one_of(st.integers(0, 40), st.integers(0, 70000)), min_size=0, max_size=12, unique=True)))
            # (3.13 line-start lists carry (offset, None) for ranges without a line)
            lines = draw(st.lists(st.one_of(st.integers(0, 100000), st.integers(0, 100000), st.none()), min_size=len(offs), max_size=len(offs)))
            # queries: the start offsets themselves, their neighbours, and anything else
            near = [o + d for o in offs for d in (-1, 0, 0, 1)] or [0]
            queries = draw(st.lists(st.one_of(st.sampled_from(near), st.integers(-5, 70010)), min_size=1, max_size=8))
            return {"k": "o2l", "starts": [[o, lines[i]] for i, o in enumerate(offs)], "queries": queries}
        o2l = o2l()
        out.append(["offset2line", o2l, 6])
        # every opcode table's findlinestarts: grouped by lnotab family, the table drawn inside
        names = self.table_names()
        groups = {}
        for n in names:
            vt = self.table_vt(n)
            g = ("pypy" if "pypy" in n else "cpython") + ("<3.6" if vt < (3, 6) else ("3.6-3.7" if vt < (3, 8) else "3.8-3.9"))
            groups.setdefault(g, []).append(n)
        for g, members in sorted(groups.items()):
            @st.composite
            def tabfam(draw, members=members):
                name = draw(st.sampled_from(members))
                c = draw(gt.lnotab_cases(self.table_vt(name)))
                c.update({"k": "tabfam", "opc": name})
                return c
            out.append(["any-table:" + g, tabfam(), 3])
        return out

    @staticmethod
    def table_vt(name):
        import re
        m = re.match(r"^(\d)\.(\d+)", name)
        return (int(m.group(1)), int(m.group(2)))

    def table_names(self):
        """every opcode table (all versions and PyPy variants) whose code objects carry an lnotab: 1.5 - 3.9"""
        from vf import refworker as rw
        x = rw.xd()
        return sorted(k for k in x.op_imports.op_imports if isinstance(k, str) and (1, 5) <= self.table_vt(k) < (3, 10))

    def judge_tabfam(self, case, ctx):
        """A drawn lnotab decoded by the findlinestarts of ANY table against the interpreter of its lnotab family:
        line deltas are unsigned before 3.6 (reference 2.7), signed in 3.6/3.7 (reference 3.6/3.7), 3.8/3.9 own."""
        from vf import refworker as rw
        from vf.run import Result
        res = Result()
        name = case.get("opc")
        if name not in self.table_names():
            res.reject = "malformed-case"
            return res
        vt = self.table_vt(name)
        fam = "2.7" if vt < (3, 6) else ("%d.%d" % vt)
        try:
            n = int(case["codelen"])
            table = rw.unhx(case["table"])
            first = int(case["first"])
        except Exception:
            res.reject = "malformed-case"
            return res
        if n < 1 or n > 20000 or len(table) % 2 or (vt >= (3, 6) and (n % 2 or any(b % 2 for b in table[0::2]))):
            res.reject = "malformed-table-case"
            return res
        tab = self.tables(ctx, fam)
        nop = tab.opmap["NOP"]
        unit = bytes([nop, 0]) if tab.v >= (3, 6) else bytes([nop])
        r = ctx.pool.ref(fam).call("mkcode", fields={"co_firstlineno": ["i", str(first)], "co_linetable": ["y", case["table"]],
                                                      "co_code": ["y", rw.hx((unit * n)[:n])]}, dis=True)
        if "reject" in r:
            res.reject = "compiler-rejects:" + r["reject"].split(":")[0]
            return res
        want = r["dis"][0]["linestarts"]
        x = rw.xd()
        opc = x.op_imports.op_imports[name]
        kw = dict(co_argcount=0, co_nlocals=0, co_stacksize=1, co_flags=0, co_code=b"\x09" * n, co_consts=(), co_names=(),
                  co_varnames=(), co_filename="f.py", co_name="n", co_firstlineno=first, co_lnotab=table, co_freevars=(),
                  co_cellvars=(), version_triple=vt + (0,))
        if vt >= (3, 0):
            kw["co_kwonlyargcount"] = 0
        if vt >= (3, 8):
            kw["co_posonlyargcount"] = 0
        res.classes = ["source:lnotab-any-table", "table:" + name]
        res.sample = {"table": name, "family_reference": fam, "lnotab_hex": case["table"], "first_line": first, "code_len": n}
        res.key = ["tabfam", name, case["table"], first, n]
        res.nontrivial = any(b >= 128 for b in table[1::2])
        if vt < (3, 0) and (first + n) % 2:
            # Python 2 code objects may carry the table as a str (one character per byte)
            kw["co_lnotab"] = table.decode("latin-1")
            res.classes.append("lnotab-as-str")
        try:
            co = x.codetype.to_portable(**kw)
            got = [[a, b] for a, b in opc.findlinestarts(co)]
        except Exception as e:
            res.fail("C05|any-table|%s|raised|%s" % (name, type(e).__name__), "table %s: findlinestarts raised %s: %s" % (name, type(e).__name__, e))
            return res
        if got != want:
            res.fail("C05|any-table|%s|%s" % ("pypy" if "pypy" in name else "cpython", "<3.6" if vt < (3, 6) else "%d.%d" % vt),
                     "table %s, lnotab %s, first line %d, %d bytes of code: findlinestarts %s; Python %s (same lnotab rules) %s" % (
                         name, case["table"], first, n, got[:8], fam, want[:8]))
        return res

    def judge_o2l(self, case, ctx):
        from vf import refworker as rw
        from vf.run import Result
        res = Result()
        starts, queries = case.get("starts"), case.get("queries")
        if not isinstance(starts, list) or not isinstance(queries, list) or any(
                not (isinstance(p, list) and len(p) == 2) for p in starts) or [p[0] for p in starts] != sorted(set(p[0] for p in starts)):
            res.reject = "malformed-case"
            return res
        x = rw.xd()
        pairs = [(a, b) for a, b in starts]
        for q in queries:
            # the documented contract: line of the greatest start offset <= q; 0 before the first start / empty list
            want = 0
            for o, l in pairs:
                if o <= q:
                    want = l
            try:
                got = x.offset2line(q, pairs)
            except Exception as e:
                res.fail("C05|offset2line|raised|%s" % type(e).__name__, "offset2line(%d, %s) raised %s" % (q, pairs[:6], e))
                continue
            if got != want:
                where = "before-first" if (not pairs or q < pairs[0][0]) else ("exact" if any(o == q for o, _ in pairs) else (
                    "after-last" if q > pairs[-1][0] else "between"))
                res.fail("C05|offset2line|%s" % where, "offset2line(%d, %s) = %s, expected %s" % (q, pairs[:8], got, want))
        # the same queries answered by xdis running on another Python (the library supports 3.8-3.13 hosts)
        from vf.pool import HOSTS
        h = HOSTS[(len(pairs) + sum(q for q in queries if isinstance(q, int))) % len(HOSTS)]
        r = ctx.pool.host(h).call("x_o2l", starts=starts, queries=queries)
        for q, got in zip(queries, r["lines"]):
            want = 0
            for o, l in pairs:
                if o <= q:
                    want = l
            if got != want:
                res.fail("C05|offset2line|host-%s" % ("3.8/3.9" if h in ("3.8", "3.9") else "3.10+"), "on a %s host offset2line(%d, %s) = %s, expected %s" % (
                    h, q, pairs[:8], got, want))
                break
        res.classes = []
        res.evals = 2 * len(queries)
        res.nontrivial = len(pairs) >= 2
        res.key = ["o2l", starts, queries]
        res.classes = ["source:offset2line", "starts:%d" % min(len(pairs), 5), "o2l-host:" + h]
        res.sample = {"kind": "offset2line", "starts": starts[:6], "queries": queries[:6]}
        return res

    def judge(self, case, ctx):
        if case.get("k") == "o2l":
            return self.judge_o2l(case, ctx)
        if case.get("k") == "tabfam":
            return self.judge_tabfam(case, ctx)
        if case.get("k") != "host":
            return super().judge(case, ctx)
        from vf.pool import HOSTS
        from vf.run import Result
        res = Result()
        h = case.get("host")
        if h not in HOSTS or not isinstance(case.get("src"), str):
            res.reject = "malformed-case"
            return res
        r = ctx.pool.host(h).call("x_lines_host", src=case["src"])
        if "reject" in r:
            res.reject = "compiler-rejects:" + r["reject"].split(":")[0]
            return res
        for sig, msg in r["fails"]:
            res.fail("C05|host|%s|%s" % (h, sig), "host %s: %s" % (h, msg))
        res.evals = max(1, r["codes"])
        res.classes = ["source:host-native", "host:" + h]
        res.nontrivial = True
        res.key = [h, case["src"]]
        res.sample = {"host": h, "kind": "native code objects on the host + their portable copies", "source_head": case["src"][:200]}
        return res

    def classify(self, case, ref, x, c, res):
        keys = []
        for i, d in enumerate(ref["dis"]):
            ls = d.get("linestarts") if isinstance(d, dict) else None
            if not ls:
                continue
            nn = [e for e in ls if e[1] is not None]
            if len(nn) != len(ls):
                res.classes.append("no-line-entry")
            big = any(abs(b[1] - a[1]) >= 128 for a, b in zip(nn, nn[1:]))
            neg = any(b[1] < a[1] for a, b in zip(nn, nn[1:]))
            if big:
                res.classes.append("delta>=128")
            if neg:
                res.classes.append("decreasing-line")
            if big or neg:
                keys.append([case["v"], ls])
        res.nt_keys = keys
        res.evals = max(1, len(ref["dis"]))


PROP = C05()
