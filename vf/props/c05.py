"""C05 - line-number mapping for every line-table format."""
from vf.props.progbase import ProgProp


class C05(ProgProp):
    id = "C05"
    use_tables = True
    aspects = ("lines",)
    rule = ("case = (bytecode version, program) with drawn line gaps (0..400 blank lines, multi-line expressions, "
            "decorators) / stdlib sample; oracle: list(opc.findlinestarts(code)) == list(dis.findlinestarts) of the "
            "producing CPython and starts_line of every instruction (dup_lines=False) == dis's; non-trivial = "
            "line table with a |delta| >= 128 or a decreasing line; distinct = (version, line starts)")
    assumptions = ["CPython's dis.findlinestarts is ground truth; 3.13 starts_line is a bool: line_number is used"]

    def classify(self, case, ref, x, c, res):
        keys = []
        for i, d in enumerate(ref["dis"]):
            ls = d.get("linestarts") if isinstance(d, dict) else None
            if not ls:
                continue
            nn = [e for e in ls if e[1] is not None]
            if len(nn) != len(ls):
                res.classes.append("no-line-entry")
            big = any(abs(b[1] - a[1]) >= 128 for a, b in zip(nn, nn[1:]))
            neg = any(b[1] < a[1] for a, b in zip(nn, nn[1:]))
            if big:
                res.classes.append("delta>=128")
            if neg:
                res.classes.append("decreasing-line")
            if big or neg:
                keys.append([case["v"], ls])
        res.nt_keys = keys
        res.evals = max(1, len(ref["dis"]))


PROP = C05()
