#!/venv/bin/python
"""Coverage-guided campaign for C11 (atheris / libFuzzer), in-process on the 3.12 driver.

usage: fuzz_c11.py <corpus_dir> <artifact_dir> [libFuzzer flags...]

The semantic oracle sits inside the target: load_module must return its 7-tuple or raise
ImportError, and must not trigger a forbidden audit event.  Inputs carrying the HOST's magic are
skipped by construction (they go to the built-in marshal, whose crashes are a listed known finding
and would end the campaign at once); the number skipped is reported at exit via a counter file.
"""
import os
import sys

HERE = os.path.dirname(os.path.dirname(os.path.abspath(__file__)))
sys.path.insert(0, HERE)
sys.path.insert(0, os.path.join(HERE, ".deps"))

import atheris  # noqa: E402

with atheris.instrument_imports(include=["xdis"]):
    from vf import refworker as rw
    rw.xd()

import importlib.util  # noqa: E402

HOST_MAGIC = importlib.util.MAGIC_NUMBER
PATH = None
COUNT = {"n": 0, "skipped_native": 0, "reached": 0}


class OracleViolation(Exception):
    pass


def reset_state():
    """module state that one load may leave behind must not leak into the next iteration"""
    x = rw.xd()
    import xdis.marsh as m
    m._FastUnmarshaller.dispatch[m.TYPE_CODE] = ORIG_LOAD_CODE


def target(data):
    COUNT["n"] += 1
    if len(data) < 50:
        data = data + b"\0" * (50 - len(data))
    if data[:4] == HOST_MAGIC:
        COUNT["skipped_native"] += 1
        return
    reset_state()
    r = rw.hostile_one(data, PATH, False)
    if r["reached"]:
        COUNT["reached"] += 1
    if COUNT["n"] % 2000 == 0:
        with open(PATH + ".count", "w") as f:
            f.write("%d %d %d" % (COUNT["n"], COUNT["skipped_native"], COUNT["reached"]))
    if r["kind"] not in ("tuple", "ImportError"):
        raise OracleViolation("%s: %s" % (r["kind"], r["detail"][-300:]))
    if r["audit"]:
        raise OracleViolation("audit: %s" % r["audit"])


def main():
    global PATH, ORIG_LOAD_CODE
    corpus, artifacts = sys.argv[1], sys.argv[2]
    flags = sys.argv[3:]
    base = os.environ.get("VF_SCRATCH") or ("/dev/shm" if os.path.isdir("/dev/shm") else artifacts)
    os.environ["VF_SCRATCH"] = base
    PATH = os.path.join(base, "vf-fuzz-%d.pyc" % os.getpid())
    import xdis.marsh as m
    ORIG_LOAD_CODE = m._FastUnmarshaller.dispatch[m.TYPE_CODE]
    rw.op_x_hostile_seeds({"seeds": []})
    devnull = os.open(os.devnull, os.O_WRONLY)
    keep = os.dup(2)
    argv = [sys.argv[0], corpus, "-artifact_prefix=" + artifacts.rstrip("/") + "/"] + flags
    atheris.Setup(argv, target)
    # xdis prints tracebacks to stderr for every rejected file: silence Python-level stderr only
    sys.stderr = open(os.devnull, "w")
    try:
        atheris.Fuzz()
    finally:
        for p in (PATH, PATH + ".count"):
            pass


if __name__ == "__main__":
    main()
