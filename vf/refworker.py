# -*- coding: utf-8 -*-
"""Reference / host worker.

ONE file, stdlib only, syntax valid on CPython 2.7 and 3.6 - 3.13.

Roles
  * reference oracle: the interpreter's own compile / marshal / dis / opcode answers
  * xdis host (3.8 - 3.13 only): runs xdis from VERIF_REPO (default /repo) under this
    interpreter and reports canonical results

It is also imported as a plain module by the driver (which runs the xdis half
in-process on 3.12).

Protocol: one JSON object per line on stdin, one JSON object per line on the
*private* copy of stdout; fd 1 itself is redirected to a scratch file so that
anything the code under test prints can be measured (field "out").
"""
from __future__ import print_function

import binascii
import json
import marshal
import os
import re
import struct
import sys
import types

PY2 = sys.version_info[0] == 2
PYV = sys.version_info[:2]

if PY2:
    text_type = unicode  # noqa
    bytes_type = str
    int_types = (int, long)  # noqa
else:
    text_type = str
    bytes_type = bytes
    int_types = (int,)


def hx(b):
    if isinstance(b, bytearray):
        b = bytes(b)
    r = binascii.hexlify(b)
    return r if PY2 else r.decode("ascii")


def unhx(s):
    return binascii.unhexlify(s.encode("ascii") if not PY2 else s)


# --------------------------------------------------------------------------------------
# canonical forms of *native* values

def _fbits(f):
    return hx(struct.pack(">d", f))


def _text_hex(t):
    if PY2:
        return hx(t.encode("utf-8"))
    return hx(t.encode("utf-8", "surrogatepass"))


def _skey(c):
    return json.dumps(c, sort_keys=True)


CODE_FIELDS_BASE = [
    "co_argcount", "co_nlocals", "co_stacksize", "co_flags", "co_code", "co_consts",
    "co_names", "co_varnames", "co_freevars", "co_cellvars", "co_filename", "co_name",
    "co_firstlineno",
]


def native_linetable(co):
    """The bytes the code object really carries as its line table."""
    if PYV >= (3, 10):
        return co.co_linetable
    return co.co_lnotab


def _istr(v):
    """decimal text of an integer; hexadecimal ("0x...") for the huge ones (decimal conversion is quadratic, and
    interpreters with the int->str digit limit refuse it above 4300 digits)"""
    v = int(v)
    if -(1 << 13000) < v < (1 << 13000):
        return str(v)
    return ("-0x%x" % -v) if v < 0 else ("0x%x" % v)


def canon(v, memo=None):
    """Canonical JSON-able form of a native value of THIS interpreter."""
    if v is None:
        return ["N"]
    if v is True:
        return ["b", 1]
    if v is False:
        return ["b", 0]
    if v is Ellipsis:
        return ["E"]
    if v is StopIteration:
        return ["X"]
    t = type(v)
    if t in int_types:
        if PY2 and t is not int:
            return ["i", _istr(v), "L"]      # Python 2 long: a different kind from int
        return ["i", _istr(v)]
    if t is float:
        return ["f", _fbits(v)]
    if t is complex:
        return ["c", _fbits(v.real), _fbits(v.imag)]
    if t is bytes_type:
        return ["y", hx(v)]
    if t is text_type:
        return ["t", _text_hex(v)]
    if t is tuple:
        return ["T", [canon(x) for x in v]]
    if t is list:
        return ["L", [canon(x) for x in v]]
    if t is set:
        return ["S", sorted([canon(x) for x in v], key=_skey)]
    if t is frozenset:
        return ["Z", sorted([canon(x) for x in v], key=_skey)]
    if t is dict:
        return ["D", sorted([[canon(k), canon(x)] for k, x in v.items()], key=_skey)]
    if t is types.CodeType:
        return ["C", canon_code(v)]
    return ["?", repr(t)]


def canon_code(co):
    d = {}
    for f in CODE_FIELDS_BASE:
        d[f] = canon(getattr(co, f))
    d["co_linetable"] = canon(native_linetable(co))
    if not PY2:
        d["co_kwonlyargcount"] = canon(co.co_kwonlyargcount)
    if PYV >= (3, 8):
        d["co_posonlyargcount"] = canon(co.co_posonlyargcount)
    if PYV >= (3, 11):
        d["co_qualname"] = canon(co.co_qualname)
        d["co_exceptiontable"] = canon(co.co_exceptiontable)
    return d


def uncanon(c):
    """Native value of THIS interpreter from a canonical form (no code objects)."""
    k = c[0]
    if k == "N":
        return None
    if k == "b":
        return bool(c[1])
    if k == "E":
        return Ellipsis
    if k == "X":
        return StopIteration
    if k == "i":
        if PY2 and len(c) > 2:
            return long(c[1], 0)      # noqa
        return int(c[1], 0)
    if k == "f":
        return struct.unpack(">d", unhx(c[1]))[0]
    if k == "c":
        return complex(struct.unpack(">d", unhx(c[1]))[0], struct.unpack(">d", unhx(c[2]))[0])
    if k == "y":
        return unhx(c[1])
    if k == "t":
        if PY2:
            return unhx(c[1]).decode("utf-8")
        return unhx(c[1]).decode("utf-8", "surrogatepass")
    if k == "T":
        return tuple([uncanon(x) for x in c[1]])
    if k == "L":
        return [uncanon(x) for x in c[1]]
    if k == "S":
        return set([uncanon(x) for x in c[1]])
    if k == "Z":
        return frozenset([uncanon(x) for x in c[1]])
    if k == "D":
        return dict([(uncanon(a), uncanon(b)) for a, b in c[1]])
    raise ValueError("cannot build %r" % (k,))


def walk_codes(co):
    """Code objects of a tree in a fixed order: pre-order over co_consts."""
    out = [co]
    for c in co.co_consts:
        if hasattr(c, "co_code"):
            out.extend(walk_codes(c))
        elif isinstance(c, (tuple, frozenset)):
            # code objects never sit inside tuples in compiler output, but generated
            # payloads may do that
            for x in c:
                if hasattr(x, "co_code"):
                    out.extend(walk_codes(x))
    return out


# --------------------------------------------------------------------------------------
# reference disassembly of a native code object

def _argval_canon(v):
    if hasattr(v, "co_code"):
        return ["C", {"co_name": canon(v.co_name), "co_firstlineno": canon(v.co_firstlineno)}]
    return canon(v)


def ref_dis_py2(co):
    """2.7: transcription of dis.disassemble's decoding loop (ceval semantics for
    EXTENDED_ARG), using this interpreter's own opcode tables."""
    import dis
    import opcode
    code = co.co_code
    n = len(code)
    i = 0
    extended = 0
    free = None
    instrs = []
    labels = set()
    while i < n:
        off = i
        op = ord(code[i])
        i += 1
        arg = None
        argval = None
        kind = None
        if op >= opcode.HAVE_ARGUMENT:
            arg = ord(code[i]) + ord(code[i + 1]) * 256 + extended
            extended = 0
            i += 2
            if op == opcode.EXTENDED_ARG:
                extended = arg * 65536
            if op in opcode.hasconst:
                kind = "const"
                argval = _argval_canon(co.co_consts[arg]) if arg < len(co.co_consts) else None
            elif op in opcode.hasname:
                kind = "name"
                argval = canon(co.co_names[arg]) if arg < len(co.co_names) else None
            elif op in opcode.hasjrel:
                kind = "jrel"
                argval = i + arg
                labels.add(argval)
            elif op in opcode.hasjabs:
                kind = "jabs"
                argval = arg
                labels.add(argval)
            elif op in opcode.haslocal:
                kind = "local"
                argval = canon(co.co_varnames[arg]) if arg < len(co.co_varnames) else None
            elif op in opcode.hascompare:
                kind = "compare"
                argval = arg if arg < len(opcode.cmp_op) else None
            elif op in opcode.hasfree:
                kind = "free"
                if free is None:
                    free = co.co_cellvars + co.co_freevars
                argval = canon(free[arg]) if arg < len(free) else None
        instrs.append({"o": off, "op": op, "n": opcode.opname[op], "a": arg, "k": kind,
                       "v": argval})
    ls = dict(dis.findlinestarts(co))
    for ins in instrs:
        ins["j"] = ins["o"] in labels
        ins["l"] = ls.get(ins["o"])
    return {
        "instrs": instrs,
        "labels": sorted(labels),
        "dis_findlabels": sorted(set(dis.findlabels(code))),
        "linestarts": [[a, b] for a, b in dis.findlinestarts(co)],
        "codelen": n,
    }


def ref_dis_py3(co):
    import dis
    import opcode
    hasarg = getattr(opcode, "hasarg", None)
    out = []
    kw = {}
    if (3, 11) <= PYV < (3, 13):
        kw["show_caches"] = True
    bc = dis.Bytecode(co, **kw)
    cmp_op = list(opcode.cmp_op)
    for ins in bc:
        op = ins.opcode
        if hasarg is not None:
            takes = op in hasarg
        else:
            takes = op >= opcode.HAVE_ARGUMENT
        if ins.opname == "CACHE":
            takes = False
        kind = None
        argval = None
        if takes:
            if op in opcode.hasconst:
                kind = "const"
                argval = _argval_canon(ins.argval)
                if type(ins.argval).__name__ == "_Unknown" or repr(ins.argval) == "<unknown>":
                    argval = ["?", "unknown"]
            elif op in opcode.hasname:
                kind = "name"
                argval = canon(ins.argval)
            elif op in opcode.hasjrel or op in getattr(opcode, "hasjabs", []):
                kind = "jrel" if op in opcode.hasjrel else "jabs"
                argval = ins.argval
            elif op in opcode.haslocal:
                kind = "local"
                argval = canon(ins.argval)
            elif op in opcode.hascompare:
                kind = "compare"
                # index into cmp_op of the operator CPython names
                av = ins.argval
                if PYV >= (3, 13) and isinstance(av, str) and av.startswith("bool("):
                    av = av[5:-1]
                argval = cmp_op.index(av) if av in cmp_op else ["?", repr(av)]
            elif op in opcode.hasfree:
                kind = "free"
                argval = canon(ins.argval)
        if PYV >= (3, 13):
            line = ins.line_number if ins.starts_line else None
        else:
            line = ins.starts_line
        d = {"o": ins.offset, "op": op, "n": ins.opname, "a": ins.arg if takes else None,
             "k": kind, "v": argval, "j": bool(ins.is_jump_target), "l": line}
        if PYV >= (3, 13):
            ci = getattr(ins, "cache_info", None)
            d["nc"] = sum(x[1] for x in ci) if ci else 0
        out.append(d)
    if PYV >= (3, 11):
        # is_jump_target as the property defines it: jump targets plus exception-handler
        # targets (3.13's dis additionally labels the *ranges* of exception entries)
        tgt = set(dis.findlabels(co.co_code))
        for e in dis._parse_exception_table(co):
            tgt.add(e.target)
        if PYV < (3, 13):
            for d in out:
                if d["n"] != "CACHE" and d["j"] != (d["o"] in tgt):
                    raise RuntimeError("reference self-check: dis.Bytecode is_jump_target at %d" % d["o"])
        for d in out:
            d["j"] = d["o"] in tgt
    res = {
        "instrs": out,
        "dis_findlabels": sorted(set(dis.findlabels(co.co_code))),
        "linestarts": [[a, b] for a, b in dis.findlinestarts(co)],
        "codelen": len(co.co_code),
    }
    # get_instructions has no handler targets on 3.11+: keep its is_jump_target too
    if PYV >= (3, 11):
        res["gi_jump_targets"] = sorted(i.offset for i in dis.get_instructions(co)
                                        if i.is_jump_target)
        res["exc"] = [[e.start, e.end, e.target, e.depth, bool(e.lasti)]
                      for e in dis._parse_exception_table(co)]
        res["positions"] = [list(p) for p in co.co_positions()]
    if PYV >= (3, 10):
        res["co_lines"] = [list(x) for x in co.co_lines()]
    return res


def ref_dis(co):
    if PY2:
        return ref_dis_py2(co)
    return ref_dis_py3(co)


def ref_tree_dump(co, want_dis=True, max_code=None):
    r = {"tree": canon(co)}
    if want_dis:
        ds = []
        for c in walk_codes(co):
            if max_code is not None and len(c.co_code) > max_code:
                ds.append({"skipped": len(c.co_code), "name": c.co_name})
            else:
                try:
                    ds.append(ref_dis(c))
                except Exception as e:  # reference cannot render (generated code)
                    ds.append({"referr": "%s: %s" % (type(e).__name__, e)})
        r["dis"] = ds
    return r


def own_header():
    """pyc header of this interpreter (timestamp form)."""
    if PY2:
        import imp
        return imp.get_magic() + struct.pack("<I", 0)
    import importlib.util
    m = importlib.util.MAGIC_NUMBER
    if PYV >= (3, 7):
        return m + struct.pack("<III", 0, 0, 0)
    return m + struct.pack("<II", 0, 0)


# --------------------------------------------------------------------------------------
# reference ops

def op_ping(req):
    return {"version": list(sys.version_info[:3]), "exe": sys.executable}


def op_compile(req):
    src = req["src"]
    fn = req.get("filename", "<gen>")
    kw = {}
    if not PY2 and "optimize" in req:
        kw["optimize"] = req["optimize"]
    if PY2:
        if isinstance(src, text_type):
            src = src.encode("utf-8")
        fn = fn.encode("utf-8") if isinstance(fn, text_type) else fn
    try:
        co = compile(src, fn, "exec", 0, True, **kw) if not PY2 else compile(src, fn, "exec", 0, True)
    except (SyntaxError, ValueError, OverflowError, RecursionError if not PY2 else RuntimeError, MemoryError) as e:
        return {"reject": "%s: %s" % (type(e).__name__, e)}
    if req.get("inline"):
        # what `marshal.dumps(compile(...))` writes: the module code object is a temporary (reference count 1), so from
        # 3.4 on it does NOT take reference slot 0 - the first flagged object inside it does
        payload = marshal.dumps(compile(src, fn, "exec", 0, True, **kw) if not PY2 else compile(src, fn, "exec", 0, True))
    else:
        payload = marshal.dumps(co)
    r = ref_tree_dump(co, req.get("dis", True), req.get("max_code"))
    r["payload"] = hx(payload)
    r["header"] = hx(own_header())
    return r


def op_compile_file(req):
    path = req["path"]
    with open(path, "rb") as f:
        src = f.read()
    try:
        co = compile(src, path, "exec", 0, True)
    except Exception as e:
        return {"reject": "%s: %s" % (type(e).__name__, e)}
    payload = marshal.dumps(co)
    r = ref_tree_dump(co, req.get("dis", True), req.get("max_code"))
    r["payload"] = hx(payload)
    r["header"] = hx(own_header())
    return r


def op_loads(req):
    """marshal.loads of a payload -> canonical value (and dis when asked)."""
    data = unhx(req["payload"])
    try:
        v = marshal.loads(data)
    except Exception as e:
        return {"reject": "%s: %s" % (type(e).__name__, e)}
    r = {}
    if req.get("dis") and hasattr(v, "co_code"):
        r = ref_tree_dump(v, True, req.get("max_code"))
    else:
        r["tree"] = canon(v)
    if req.get("consumed"):
        # how many bytes marshal really needs: shortest prefix is expensive; use load()
        import io
        if not PY2:
            bio = io.BytesIO(data)
            try:
                marshal.load(bio)
                r["consumed"] = bio.tell()
            except Exception:
                r["consumed"] = None
    return r


def op_dumps(req):
    """Build the value (wrapped by a sharing plan) and marshal.dumps it with version k."""
    v = build_shared(req["value"])
    out = {}
    for k in req["versions"]:
        try:
            out[str(k)] = hx(marshal.dumps(v, k))
        except Exception as e:
            out[str(k)] = None
            out["err%d" % k] = "%s: %s" % (type(e).__name__, e)
    out["tree"] = canon(v)
    return out


def build_shared(c, memo=None):
    """Like uncanon, but nodes of the form ["=", id, canon] are built once per id so the
    same *object* is referenced from several places (marshal then emits FLAG_REF / 'r')."""
    if memo is None:
        memo = {}
    k = c[0]
    if k == "=":
        if c[1] not in memo:
            memo[c[1]] = build_shared(c[2], memo)
        return memo[c[1]]
    if k == "T":
        return tuple([build_shared(x, memo) for x in c[1]])
    if k == "L":
        return [build_shared(x, memo) for x in c[1]]
    if k == "S":
        return set([build_shared(x, memo) for x in c[1]])
    if k == "Z":
        return frozenset([build_shared(x, memo) for x in c[1]])
    if k == "D":
        return dict([(build_shared(a, memo), build_shared(b, memo)) for a, b in c[1]])
    return uncanon(c)


def op_dumps_code(req):
    """Real encoder for C10: values (with a sharing plan) become co_consts of a code object
    of this interpreter, marshal.dumps'ed with format version k; the oracle is this
    interpreter's own marshal.loads of the very same bytes."""
    memo = {}
    items = tuple([build_shared(c, memo) for c in req["values"]])
    base = template_code()
    if PYV >= (3, 8):
        co = base.replace(co_consts=items)
    else:
        co = code_with(base, co_consts=items)
    try:
        payload = marshal.dumps(co, req["mver"])
    except Exception as e:
        return {"reject": "%s: %s" % (type(e).__name__, e)}
    back = marshal.loads(payload)
    return {"payload": hx(payload), "consts": canon(back.co_consts)}


def code_with(base, **vals):
    def g(n):
        return vals.get(n, getattr(base, n))
    if PY2:
        return types.CodeType(g("co_argcount"), g("co_nlocals"), g("co_stacksize"), g("co_flags"),
                              g("co_code"), g("co_consts"), g("co_names"), g("co_varnames"),
                              g("co_filename"), g("co_name"), g("co_firstlineno"), g("co_lnotab"),
                              g("co_freevars"), g("co_cellvars"))
    return types.CodeType(g("co_argcount"), g("co_kwonlyargcount"), g("co_nlocals"),
                          g("co_stacksize"), g("co_flags"), g("co_code"), g("co_consts"),
                          g("co_names"), g("co_varnames"), g("co_filename"), g("co_name"),
                          g("co_firstlineno"), g("co_lnotab"), g("co_freevars"), g("co_cellvars"))


_TEMPLATE = None


def template_code():
    global _TEMPLATE
    if _TEMPLATE is None:
        _TEMPLATE = compile("pass", "<t>", "exec")
    return _TEMPLATE


def make_code(fields):
    """A native code object: template + replaced fields (canonical values; consts may
    contain nested {'code': fields} entries)."""
    base = template_code()
    vals = {}
    for k, v in fields.items():
        if k == "co_consts_mixed":
            items = []
            for x in v:
                if isinstance(x, dict):
                    items.append(make_code(x))
                else:
                    items.append(uncanon(x))
            vals["co_consts"] = tuple(items)
        else:
            vals[k] = uncanon(v)
    if PYV >= (3, 8):
        if "co_linetable" in vals and PYV < (3, 10):
            vals["co_lnotab"] = vals.pop("co_linetable")
        return base.replace(**vals)
    if "co_linetable" in vals:
        vals["co_lnotab"] = vals.pop("co_linetable")

    return code_with(base, **vals)


def op_mkcode(req):
    try:
        co = make_code(req["fields"])
    except Exception as e:
        return {"reject": "%s: %s" % (type(e).__name__, e)}
    payload = marshal.dumps(co)
    r = ref_tree_dump(co, req.get("dis", True))
    r["payload"] = hx(payload)
    r["header"] = hx(own_header())
    return r


def op_opcode_tables(req):
    import opcode
    d = {
        "opmap": dict(opcode.opmap),
        "opname": list(opcode.opname),
        "HAVE_ARGUMENT": opcode.HAVE_ARGUMENT,
        "EXTENDED_ARG": opcode.EXTENDED_ARG,
        "cmp_op": list(opcode.cmp_op),
    }
    for n in ("hasjrel", "hasjabs", "hasconst", "hasname", "haslocal", "hasfree", "hascompare",
              "hasarg", "hasexc", "hasnargs"):
        if hasattr(opcode, n):
            d[n] = sorted(getattr(opcode, n))
    ice = getattr(opcode, "_inline_cache_entries", None)
    if ice is not None:
        if isinstance(ice, dict):
            d["caches"] = dict(ice)
        else:
            d["caches"] = dict((opcode.opname[i], n) for i, n in enumerate(ice) if n)
    return d


def op_stack_effect(req):
    import dis
    res = []
    se = dis.stack_effect
    for op, lo, hi in req["ranges"]:
        row = []
        for a in range(lo, hi):
            try:
                row.append(se(op, a))
            except ValueError:
                row.append(None)
        res.append(row)
    single = []
    for op, a in req.get("pairs", []):
        try:
            single.append(se(op, a) if a is not None else se(op))
        except ValueError:
            single.append(None)
    return {"ranges": res, "pairs": single}


def op_stdlib_files(req):
    import sysconfig
    lib = sysconfig.get_paths()["stdlib"]
    out = []
    for root, dirs, files in os.walk(lib):
        dirs.sort()
        if "site-packages" in dirs:
            dirs.remove("site-packages")
        for f in sorted(files):
            if f.endswith(".py"):
                p = os.path.join(root, f)
                try:
                    sz = os.path.getsize(p)
                except OSError:
                    continue
                out.append([p, sz])
    return {"lib": lib, "files": out}


def op_magic(req):
    if PY2:
        import imp
        m = imp.get_magic()
        src = None
    else:
        import importlib.util
        import importlib._bootstrap_external as be
        m = importlib.util.MAGIC_NUMBER
        src = None
        try:
            import inspect
            src = inspect.getsourcefile(be)
        except Exception:
            src = None
        if src is None or not os.path.exists(src):
            import sysconfig
            src = os.path.join(sysconfig.get_paths()["stdlib"], "importlib", "_bootstrap_external.py")
    return {"magic": hx(m), "version_info": list(sys.version_info), "registry_src": src,
            "releaselevel": sys.version_info[3]}


def op_pycompile(req):
    """py_compile in a given invalidation mode (3.7+) -> file bytes."""
    import py_compile
    kw = {}
    if PYV >= (3, 7) and req.get("mode"):
        kw["invalidation_mode"] = getattr(py_compile.PycInvalidationMode, req["mode"])
    py_compile.compile(req["src_path"], cfile=req["out_path"], doraise=True, **kw)
    with open(req["out_path"], "rb") as f:
        return {"data": hx(f.read())}


def op_classify_pyc(req):
    import importlib._bootstrap_external as be
    data = unhx(req["data"])
    try:
        flags = be._classify_pyc(data, "x", {})
        return {"flags": flags}
    except Exception as e:
        return {"reject": "%s: %s" % (type(e).__name__, e)}


def op_exec_objects(req):
    """Execute a generated program and dis-dump named objects (C20 reference side)."""
    return exec_objects(req, use_xdis=False)


# --------------------------------------------------------------------------------------
# xdis half (hosts 3.8 - 3.13, and in-process in the driver)

_XD = {}


def xd():
    """Import xdis from the tree under test (once per process)."""
    if not _XD:
        repo = os.environ.get("VERIF_REPO", "/repo")
        if repo not in sys.path:
            sys.path.insert(0, repo)
        import xdis
        import xdis.load
        import xdis.unmarshal
        import xdis.marsh
        import xdis.disasm
        import xdis.std
        import xdis.magics
        import xdis.op_imports
        import xdis.cross_types
        import xdis.codetype
        import xdis.codetype.base
        import xdis.bytecode
        import xdis.cross_dis
        assert os.path.realpath(xdis.__file__).startswith(os.path.realpath(repo)), xdis.__file__
        _XD["xdis"] = xdis
    return _XD["xdis"]


def xcanon(v, py2file):
    """Canonical form of a value produced by xdis for a file of a py2 / py3 version."""
    x = xd()
    CodeBase = x.codetype.base.CodeBase
    if v is None:
        return ["N"]
    if v is True:
        return ["b", 1]
    if v is False:
        return ["b", 0]
    if v is Ellipsis:
        return ["E"]
    if v is StopIteration:
        return ["X"]
    if isinstance(v, x.cross_types.UnicodeForPython3):
        raw = v.value
        if isinstance(raw, str):
            raw = raw.encode("utf-8", "surrogatepass")
        return ["t", hx(raw)]
    t = type(v)
    if isinstance(v, x.cross_types.LongTypeForPython3):
        return ["i", _istr(v), "L"]      # the Python-2 long kind: wrong for a Python 3 file, whatever the value
    if t is int:
        return ["i", _istr(v)]
    if t is float:
        return ["f", _fbits(v)]
    if t is complex:
        return ["c", _fbits(v.real), _fbits(v.imag)]
    if t is bytes:
        return ["y", hx(v)]
    if t is str:
        if py2file:
            # Python 2 str: xdis hands back text when the bytes happen to be UTF-8 - real UTF-8: text holding a lone
            # surrogate is no rendering of a Python 2 byte string any more
            try:
                return ["y", hx(v.encode("utf-8"))]
            except UnicodeEncodeError:
                return ["t", hx(v.encode("utf-8", "surrogatepass"))]
        return ["t", _text_hex(v)]
    if t is tuple:
        return ["T", [xcanon(e, py2file) for e in v]]
    if t is list:
        return ["L", [xcanon(e, py2file) for e in v]]
    if t is set:
        return ["S", sorted([xcanon(e, py2file) for e in v], key=_skey)]
    if t is frozenset:
        return ["Z", sorted([xcanon(e, py2file) for e in v], key=_skey)]
    if t is dict:
        return ["D", sorted([[xcanon(k, py2file), xcanon(e, py2file)] for k, e in v.items()],
                            key=_skey)]
    if isinstance(v, CodeBase) or t is types.CodeType:
        return ["C", xcanon_code(v, py2file)]
    return ["?", repr(t)]


def x_linetable(co):
    if isinstance(co, types.CodeType):
        return native_linetable(co)
    for a in ("co_linetable", "co_lnotab"):
        if hasattr(co, a):
            return getattr(co, a)
    return None


def xcanon_code(co, py2file, version=None):
    d = {}
    if isinstance(co, types.CodeType):
        return canon_code(co)
    for f in CODE_FIELDS_BASE:
        if hasattr(co, f):
            val = getattr(co, f)
            if f == "co_code" and isinstance(val, str):
                val = val.encode("latin-1")
            d[f] = xcanon(val, py2file)
    lt = x_linetable(co)
    if lt is not None:
        if isinstance(lt, str):
            lt = lt.encode("latin-1")
        d["co_linetable"] = xcanon(lt, py2file)
    for f in ("co_kwonlyargcount", "co_posonlyargcount", "co_qualname", "co_exceptiontable"):
        if hasattr(co, f):
            d[f] = xcanon(getattr(co, f), py2file)
    if hasattr(co, "co_localspluskinds"):
        # what the 3.11+ file really stores (no CPython attribute shows the kinds): xdis-to-xdis comparisons only
        d["x_localsplus"] = [xcanon(getattr(co, "co_localsplusnames", None), py2file), xcanon(co.co_localspluskinds, py2file)]
    return d


def instr_to_dict(ins, opc, py2file, cmp_op):
    op = ins.opcode
    kind = None
    argval = None
    if ins.arg is not None:
        if op in opc.CONST_OPS:
            kind = "const"
            av = ins.argval
            if hasattr(av, "co_code"):
                argval = ["C", {"co_name": xcanon(av.co_name, py2file),
                                "co_firstlineno": xcanon(getattr(av, "co_firstlineno", None), py2file)}]
            else:
                argval = xcanon(av, py2file)
        elif op in opc.NAME_OPS:
            kind = "name"
            argval = xcanon(ins.argval, py2file)
        elif op in opc.JREL_OPS:
            kind = "jrel"
            argval = ins.argval
        elif op in opc.JABS_OPS:
            kind = "jabs"
            argval = ins.argval
        elif op in opc.LOCAL_OPS:
            kind = "local"
            argval = xcanon(ins.argval, py2file)
        elif op in opc.COMPARE_OPS:
            kind = "compare"
            argval = cmp_op.index(ins.argval) if ins.argval in cmp_op else ["?", repr(ins.argval)]
        elif op in opc.FREE_OPS:
            kind = "free"
            argval = xcanon(ins.argval, py2file)
    return {"o": ins.offset, "op": op, "n": ins.opname, "a": ins.arg, "k": kind,
            "v": argval, "j": bool(ins.is_jump_target), "l": ins.starts_line,
            "sz": ins.inst_size, "x": bool(ins.has_extended_arg),
            "ha": bool(ins.has_arg), "ot": ins.optype,
            "r": ins.argrepr if (ins.argrepr is None or isinstance(ins.argrepr, str)) else str(ins.argrepr)}


def x_instr_dump(co, opc, max_code=None, dup_lines=False):
    """Instruction stream, labels, line starts ... of one code object as xdis sees it."""
    x = xd()
    code = co.co_code
    res = {"codelen": len(code)}
    py2file = opc.version_tuple < (3, 0)
    try:
        res["labels"] = sorted(set(opc.findlabels(code, opc)))
    except Exception as e:
        res["labels_err"] = "%s: %s" % (type(e).__name__, e)
    try:
        res["linestarts"] = [[a, b] for a, b in opc.findlinestarts(co)]
    except Exception as e:
        res["linestarts_err"] = "%s: %s" % (type(e).__name__, e)
    if opc.version_tuple >= (3, 10):
        if hasattr(co, "co_lines"):
            try:
                res["co_lines"] = [list(t) for t in co.co_lines()]
            except Exception as e:
                res["co_lines_err"] = "%s: %s" % (type(e).__name__, e)
        if hasattr(co, "co_positions"):
            # Code311.co_positions() yields one (code units, line, end line, col, end col) per
            # table entry: expand to one 4-tuple per code unit, the shape CPython reports
            try:
                out = []
                for t in co.co_positions():
                    t = list(t)
                    if len(t) == 5:
                        out.extend([t[1:]] * t[0])
                    else:
                        out.append(t)
                res["positions"] = out
            except Exception as e:
                res["positions_err"] = "%s: %s" % (type(e).__name__, e)
            try:
                import xdis.codetype.code311 as c311
                res["positions_pp"] = [list(t) for t in c311.parse_positions(co.co_linetable, co.co_firstlineno)]
            except Exception as e:
                res["positions_pp_err"] = "%s: %s" % (type(e).__name__, e)
    try:
        # metamorphic: the same code object 1000 lines further down reports every line 1000 higher
        if hasattr(co, "replace") and isinstance(getattr(co, "co_firstlineno", None), int):
            K = 1000
            co2 = co.replace(co_firstlineno=co.co_firstlineno + K)

            def sh(line):
                return None if line is None else line + K
            bad = []
            if "linestarts" in res and [[a, b] for a, b in opc.findlinestarts(co2)] != [[a, sh(b)] for a, b in res["linestarts"]]:
                bad.append("findlinestarts")
            if "co_lines" in res and [list(t) for t in co2.co_lines()] != [[a, b, sh(c)] for a, b, c in res["co_lines"]]:
                bad.append("co_lines")
            if "positions" in res:
                out = []
                for t in co2.co_positions():
                    t = list(t)
                    if len(t) == 5:
                        out.extend([t[1:]] * t[0])
                    else:
                        out.append(t)
                if out != [[sh(p[0]), sh(p[1]), p[2], p[3]] for p in res["positions"]]:
                    bad.append("co_positions")
            res["shift_bad"] = bad
    except Exception as e:
        res["shift_bad"] = ["raised %s: %s" % (type(e).__name__, e)]
    try:
        # a Python 2 code object may carry co_code as a str (one character per byte): the same instructions
        if opc.version_tuple < (3, 0) and isinstance(code, bytes) and len(code) <= 800 and hasattr(co, "replace"):
            co_s = co.replace(co_code=code.decode("latin-1"))
            a_ = [(i_.offset, i_.opcode, i_.arg) for i_ in x.bytecode.Bytecode(co, opc)]
            b_ = [(i_.offset, i_.opcode, i_.arg) for i_ in x.bytecode.Bytecode(co_s, opc)]
            if a_ != b_:
                k_ = next((j for j in range(min(len(a_), len(b_))) if a_[j] != b_[j]), min(len(a_), len(b_)))
                res["strcode_bad"] = "co_code given as str: row %d is %s, with bytes %s" % (k_, b_[k_:k_ + 1], a_[k_:k_ + 1])
    except Exception as e:
        res["strcode_bad"] = "co_code given as str: raised %s: %s" % (type(e).__name__, e)
    try:
        # Bytecode(co, first_line=N) renumbers the listing; it must not touch the code object
        if isinstance(getattr(co, "co_firstlineno", None), int) and "linestarts" in res and len(code) <= 1200:
            before_first = co.co_firstlineno
            list(x.bytecode.Bytecode(co, opc, first_line=before_first + 5))
            after = [[a, b] for a, b in opc.findlinestarts(co)]
            if co.co_firstlineno != before_first or after != res["linestarts"]:
                res.setdefault("shift_bad", [])
                res["shift_bad"] = list(res.get("shift_bad") or []) + ["Bytecode(first_line=) altered the code object"]
                try:
                    co.co_firstlineno = before_first
                except Exception:
                    pass
        # the per-offset entry point given the exception table marks handler targets like the iterator does
        if opc.version_tuple >= (3, 11) and getattr(co, "co_exceptiontable", None) and len(code) <= 1200:
            entries = x.bytecode.parse_exception_table(co.co_exceptiontable) if hasattr(x.bytecode, "parse_exception_table") else None
            if entries:
                bad = None
                for e in entries[:6]:
                    tgt = e.target if hasattr(e, "target") else e[2]
                    got_i = list(x.bytecode.get_logical_instruction_at_offset(code, tgt, opc, varnames=co.co_varnames, names=co.co_names,
                                                                             constants=co.co_consts, cells=co.co_cellvars + co.co_freevars,
                                                                             exception_entries=entries))
                    if got_i and not got_i[0].is_jump_target:
                        bad = "handler target %d not flagged by get_logical_instruction_at_offset(exception_entries=...)" % tgt
                        break
                res["direct_bad"] = bad
    except Exception as e:
        res["direct_bad"] = "raised %s: %s" % (type(e).__name__, e)
    try:
        # metamorphic: the same code object with every local renamed resolves LOAD_FAST & co. to the new names
        if hasattr(co, "replace") and getattr(co, "co_varnames", None) and opc.version_tuple >= (3, 0) and len(code) <= 400:
            new = tuple((n_ + "_r") if isinstance(n_, str) else n_ for n_ in co.co_varnames)
            co3 = co.replace(co_varnames=new)
            old2new = dict(zip(co.co_varnames, new))
            bad = None
            a_ = list(x.bytecode.Bytecode(co, opc))
            b_ = list(x.bytecode.Bytecode(co3, opc))
            for i_, j_ in zip(a_, b_):
                if i_.opcode in opc.LOCAL_OPS and isinstance(i_.argval, str) and i_.argval in old2new and j_.argval != old2new[i_.argval]:
                    if i_.argval in getattr(co, "co_cellvars", ()) or i_.argval in getattr(co, "co_freevars", ()):
                        continue
                    bad = "at %d %s: %r before, %r after renaming to %r" % (i_.offset, i_.opname, i_.argval, j_.argval, old2new[i_.argval])
                    break
            res["rename_bad"] = bad
    except Exception as e:
        res["rename_bad"] = "raised %s: %s" % (type(e).__name__, e)
    try:
        # the second, independent operand decoder inside xdis (used by the label finders)
        if opc.version_tuple >= (3, 10):
            unp = x.cross_dis.unpack_opargs_bytecode_310(code, opc)
        elif opc.version_tuple >= (3, 6):
            import xdis.wordcode as _wc
            unp = _wc.unpack_opargs_wordcode(code, opc)
        else:
            unp = x.cross_dis.unpack_opargs_bytecode(code, opc)
        res["unpacked"] = [[o, op, a] for o, op, a in unp]
    except Exception as e:
        res["unpacked_err"] = "%s: %s" % (type(e).__name__, e)
    if max_code is not None and len(code) > max_code:
        res["skipped"] = len(code)
        return res
    try:
        bc = x.bytecode.Bytecode(co, opc, dup_lines=dup_lines)
        instrs = []
        cmp_op = list(getattr(opc, "cmp_op", ()))
        for ins in bc:
            instrs.append(instr_to_dict(ins, opc, py2file, cmp_op))
        res["instrs"] = instrs
        if getattr(bc, "exception_entries", None) is not None:
            res["exc"] = [[e.start, e.end, e.target, e.depth, bool(e.lasti)]
                          for e in bc.exception_entries]
        if opc.version_tuple >= (3, 11):
            try:
                res["exc_parsed"] = [[e.start, e.end, e.target, e.depth, bool(e.lasti)]
                                     for e in x.bytecode.parse_exception_table(co.co_exceptiontable)]
            except Exception as e:
                res["exc_err"] = "%s: %s" % (type(e).__name__, e)
    except Exception as e:
        import traceback
        res["instrs_err"] = "%s: %s" % (type(e).__name__, e)
        res["instrs_tb"] = traceback.format_exc()[-1500:]
    return res


def x_walk_codes(co):
    out = [co]
    for c in co.co_consts:
        if hasattr(c, "co_code"):
            out.extend(x_walk_codes(c))
        elif isinstance(c, (tuple, frozenset)):
            for e in c:
                if hasattr(e, "co_code"):
                    out.extend(x_walk_codes(e))
    return out


def x_load_bytes(data, path=None, scratch=None):
    """load_module on bytes (through a real file: load_module is the public API)."""
    x = xd()
    if path is None:
        path = scratch_path("in.pyc", scratch)
        with open(path, "wb") as f:
            f.write(data)
    return x.load.load_module(path)


_SCRATCH = [None]


def scratch_dir():
    if _SCRATCH[0] is None:
        import tempfile
        base = os.environ.get("VF_SCRATCH") or ("/dev/shm" if os.path.isdir("/dev/shm") else None)
        _SCRATCH[0] = tempfile.mkdtemp(prefix="vf-w%d-" % os.getpid(), dir=base)
        import atexit
        import shutil
        atexit.register(lambda: shutil.rmtree(_SCRATCH[0], ignore_errors=True))
    return _SCRATCH[0]


def scratch_path(name, scratch=None):
    return os.path.join(scratch or scratch_dir(), name)


EXTRA_ROUTES = [False]       # set by the driver for the properties that own them (C02 / C03): costs two more listings


def x_dump_file(data=None, path=None, want_dis=True, max_code=None, route="load_module",
                dup_lines=False):
    """Everything xdis decodes from one bytecode file, canonically."""
    x = xd()
    r = {}
    if route in ("load_module", "native2portable"):
        tup = x_load_bytes(data, path)
        version, ts, magic_int, co, is_pypy, size, sip = tup
        if route == "native2portable" and isinstance(co, types.CodeType):
            # the native code object the fast path returned, converted like xasm / decompilers do
            co = x.codetype.codeType2Portable(co)
    else:
        # portable unmarshaller on the payload behind the header, whatever the host
        if data is None:
            with open(path, "rb") as f:
                data = f.read()
        tup = x.load.load_module_from_file_object(__import__("io").BytesIO(data), get_code=False)
        version, ts, magic_int, _, is_pypy, size, sip = tup
        hl = header_len(version, magic_int)
        import io
        fp = io.BytesIO(data[hl:])
        co = x.unmarshal.load_code(fp, magic_int)
        r["consumed"] = fp.tell()
        r["payload_len"] = len(data) - hl
    r["header"] = {"version": list(version), "timestamp": ts, "magic_int": magic_int,
                   "is_pypy": bool(is_pypy), "source_size": size, "sip_hash": sip}
    py2file = tuple(version) < (3, 0)
    r["native"] = isinstance(co, types.CodeType)
    r["tree"] = xcanon(co, py2file)
    if want_dis:
        opc = x.disasm.get_opcode(version, is_pypy) if hasattr(x.disasm, "get_opcode") else None
        codes = x_walk_codes(co)
        r["dis"] = [x_instr_dump(c, opc, max_code, dup_lines) for c in codes]
        # one Bytecode object (built for the module) asked for the instructions of every OTHER code object:
        # how xdis.std.get_instructions and decompilers use the API
        if len(codes) > 1 and tuple(version) >= (2, 1):
            try:
                top = x.bytecode.Bytecode(codes[0], opc, dup_lines=dup_lines)
            except Exception:
                top = None
            cmp_op = list(getattr(opc, "cmp_op", ()))
            for c, d in zip(codes[1:], r["dis"][1:]):
                if top is None or "instrs" not in d or len(d["instrs"]) > 400:
                    continue
                try:
                    d["instrs_gi"] = {"instrs": [instr_to_dict(i, opc, py2file, cmp_op) for i in top.get_instructions(c)]}
                except Exception as e:
                    d["instrs_gi"] = {"err": "%s: %s" % (type(e).__name__, e)}
        # the fourth: the list Bytecode.disassemble_bytes() RETURNS (what xasm-style tools post-process), per format
        if tuple(version) >= (2, 1) and EXTRA_ROUTES[0]:
            import io as _io
            cmp_op = list(getattr(opc, "cmp_op", ()))
            for c, d in zip(codes, r["dis"]):
                has_ext = "instrs" in d and any(i_["n"] == "EXTENDED_ARG" for i_ in d["instrs"])
                if "instrs" not in d or len(d["instrs"]) > (1300 if has_ext else 300):
                    continue
                for fmt in ("classic", "asm"):
                    try:
                        b = x.bytecode.Bytecode(c, opc, dup_lines=dup_lines)
                        lst = b.disassemble_bytes(c.co_code, varnames=c.co_varnames, names=c.co_names, constants=c.co_consts,
                                                  cells=b._cell_names, line_starts=b._linestarts, file=_io.StringIO(), asm_format=fmt,
                                                  filename="", show_source=False, first_line_number=getattr(c, "co_firstlineno", None),
                                                  exception_entries=b.exception_entries, localsplusnames=b._localsplusnames)
                        if isinstance(lst, list):
                            d["instrs_ret_" + fmt] = {"instrs": [instr_to_dict(i, opc, py2file, cmp_op) for i in lst]}
                    except Exception as e:
                        d["instrs_ret_" + fmt] = {"err": "%s: %s" % (type(e).__name__, e)}
        # the third way to the instructions of a code object: xdis.lineoffsets.LineOffsetInfo(opc, code).instructions
        if tuple(version) >= (2, 1):
            cmp_op = list(getattr(opc, "cmp_op", ()))
            for c, d in zip(codes, r["dis"]):
                if "instrs" not in d or len(d["instrs"]) > 400:
                    continue
                try:
                    loi = x.lineoffsets.LineOffsetInfo(opc, c)
                    d["instrs_loi"] = {"instrs": [instr_to_dict(i, opc, py2file, cmp_op) for i in loi.instructions]}
                except Exception as e:
                    d["instrs_loi"] = {"err": "%s: %s" % (type(e).__name__, e)}
    return r


def header_len(version, magic_int):
    version = tuple(version)
    if version >= (3, 7):
        return 16
    if version >= (3, 3):
        return 12
    return 8


def op_x_dump(req):
    data = unhx(req["data"]) if req.get("data") else None
    return x_dump_file(data, req.get("path"), req.get("dis", True), req.get("max_code"),
                       req.get("route", "load_module"), req.get("dup_lines", False))


def op_x_listing(req):
    x = xd()
    import io
    out = io.StringIO()
    path = req.get("path")
    if path is None:
        path = scratch_path("l.pyc")
        with open(path, "wb") as f:
            f.write(unhx(req["data"]))
    x.disasm.disassemble_file(path, out, req["fmt"])
    return {"text": out.getvalue()}


def op_x_c19(req):
    """C19 on this host: freeze() a portable code object carrying an {offset: line} table, decode it with the table's own
    findlinestarts"""
    x = xd()
    ct = x.codetype
    typ, first, codelen = req["type"], req["first"], req["codelen"]
    table = dict((o, l) for o, l in req["pairs"])
    common = dict(co_argcount=0, co_nlocals=0, co_stacksize=1, co_flags=64, co_code=bytes([9] * codelen), co_consts=(None,),
                  co_names=(), co_varnames=(), co_filename="f.py", co_name="f", co_firstlineno=first, co_freevars=(), co_cellvars=())
    if typ == "Code2":
        p = ct.Code2(co_lnotab=table, **common)
    elif typ == "Code3":
        p = ct.Code3(co_kwonlyargcount=0, co_lnotab=table, **common)
    elif typ == "Code38":
        p = ct.Code38(co_posonlyargcount=0, co_kwonlyargcount=0, co_lnotab=table, **common)
    else:
        p = ct.Code310(co_posonlyargcount=0, co_kwonlyargcount=0, co_linetable=table, **common)
    p = p.freeze()
    frozen = p.co_linetable if typ == "Code310" else p.co_lnotab
    if isinstance(frozen, str):
        frozen = frozen.encode("latin-1")
    opc = x.disasm.get_opcode(tuple(req["vt"]), False)
    return {"frozen": hx(bytes(frozen)), "decoded": [[a, b] for a, b in opc.findlinestarts(p)]}


def op_x_o2l(req):
    """C05: xdis.offset2line on this host"""
    x = xd()
    pairs = [(a, b) for a, b in req["starts"]]
    out = []
    for q in req["queries"]:
        try:
            out.append(x.offset2line(q, pairs))
        except Exception as e:
            out.append("raised %s: %s" % (type(e).__name__, e))
    return {"lines": out}


def op_x_stack_effect(req):
    """C15: xstack_effect computed under this host for (opcode, operand) pairs of one bytecode version"""
    x = xd()
    opc = x.disasm.get_opcode(tuple(req["version"]), False)
    out = []
    for op in req["ops"]:
        row = []
        for a in req["args"]:
            try:
                row.append(x.cross_dis.xstack_effect(op, opc, a))
            except Exception as e:
                row.append("raised %s" % type(e).__name__)
        out.append(row)
    return {"rows": out}


def op_x_sysinfo2magic(req):
    x = xd()
    return {"magic": hx(x.magics.sysinfo2magic()), "python_magic_int": x.magics.PYTHON_MAGIC_INT}


def op_x_marsh(req):
    """C14: xdis.marsh against this host's own marshal on one plain value."""
    x = xd()
    v = build_shared(req["value"])
    out = {"value": canon(v)}
    # a container handed back by loads belongs to the caller: filling it must not change what the next loads returns
    try:
        for empty in ([], {}, set()):
            a_ = x.marsh.loads(marshal.dumps(empty, 2))
            if isinstance(a_, list):
                a_.append(1)
            elif isinstance(a_, dict):
                a_[1] = 2
            elif isinstance(a_, set):
                a_.add(1)
            b_ = x.marsh.loads(marshal.dumps((empty, (), empty), 2))
            if canon(b_) != canon((empty, (), empty)):
                out["aliasing"] = "after filling a loaded empty %s, loads of (empty, (), empty) gives %r" % (type(empty).__name__, b_)
    except Exception as e:
        out["aliasing"] = "raised %s: %s" % (type(e).__name__, e)
    try:
        b = x.marsh.dumps(v)
        out["dumps_type"] = type(b).__name__
        try:
            back = marshal.loads(b)
            out["xdumps_loads"] = canon(back)
            import io
            bio = io.BytesIO(b)
            marshal.load(bio)
            out["xdumps_consumed"] = [bio.tell(), len(b)]
        except Exception as e:
            out["xdumps_loads_err"] = "%s: %s" % (type(e).__name__, e)
            out["xdumps_hex"] = hx(b)[:200] if isinstance(b, (bytes, bytearray)) else repr(b)[:200]
    except Exception as e:
        import traceback
        out["xdumps_err"] = "%s: %s" % (type(e).__name__, e)
        out["xdumps_tb"] = traceback.format_exc()[-800:]
    for k in (0, 1):
        try:
            b = marshal.dumps(v, k)
        except Exception as e:
            out["dumps%d_reject" % k] = "%s: %s" % (type(e).__name__, e)
            continue
        try:
            back = x.marsh.loads(b)
            out["xloads%d" % k] = canon(back)
        except Exception as e:
            import traceback
            out["xloads%d_err" % k] = "%s: %s" % (type(e).__name__, e)
            out["xloads%d_tb" % k] = traceback.format_exc()[-800:]
        try:
            import io
            back = x.marsh.load(io.BytesIO(b))
            out["xload%d" % k] = canon(back)
        except Exception as e:
            out["xload%d_err" % k] = "%s: %s" % (type(e).__name__, e)
    return out


def _native_dump(co):
    d = {}
    for a in sorted(dir(co)):
        if a.startswith("co_"):
            v = getattr(co, a)
            if callable(v):
                continue
            d[a] = canon(v) if not isinstance(v, tuple) or not any(hasattr(e, "co_code") for e in v) else \
                ["T", [(["code", e.co_name, id(e)] if hasattr(e, "co_code") else canon(e)) for e in v]]
    if hasattr(co, "co_lines"):
        d["co_lines()"] = [list(t) for t in co.co_lines()]
    if hasattr(co, "co_positions"):
        d["co_positions()"] = [list(t) for t in co.co_positions()]
    return d


def _portable_dump(p):
    d = {}
    for a in sorted(vars(p)):
        if a.startswith("co_"):
            v = getattr(p, a)
            try:
                d[a] = xcanon(v, False) if not isinstance(v, (tuple, list)) or not any(hasattr(e, "co_code") for e in v) else \
                    ["T", [(["code", e.co_name, id(e)] if hasattr(e, "co_code") else xcanon(e, False)) for e in v]]
            except Exception as e:
                d[a] = ["?", repr(e)]
    return d


def op_x_c16(req):
    """C16 on this host: native -> portable -> native for every code object of a program,
    and replace() semantics."""
    x = xd()
    try:
        top = compile(req["src"], "<c16>", "exec", 0, True)
    except (SyntaxError, ValueError, OverflowError, RecursionError, MemoryError) as e:
        return {"reject": "%s: %s" % (type(e).__name__, e)}
    want_cls = x.codetype.portableCodeType(sys.version_info[:3]).__name__
    fails = []
    infos = []
    for i, co in enumerate(walk_codes(top)):
        info = {"name": co.co_name, "linetable_len": len(native_linetable(co)),
                "exctable_len": len(getattr(co, "co_exceptiontable", b"")), "code_len": len(co.co_code)}
        infos.append(info)
        try:
            p = x.codetype.codeType2Portable(co)
        except Exception as e:
            fails.append(["codeType2Portable-raised|%s" % type(e).__name__, "co%d %s: %s" % (i, co.co_name, e)])
            continue
        if type(p).__name__ != want_cls:
            fails.append(["portable-class", "co%d: codeType2Portable gave %s, host %s wants %s" % (
                i, type(p).__name__, ".".join(map(str, sys.version_info[:2])), want_cls)])
        before = _portable_dump(p)
        try:
            n = p.to_native()
        except Exception as e:
            import traceback
            fails.append(["to_native-raised|%s" % type(e).__name__, "co%d %s: %s" % (i, co.co_name, traceback.format_exc()[-400:])])
            continue
        if not isinstance(n, types.CodeType):
            fails.append(["to_native-type", "co%d: to_native returned %s" % (i, type(n).__name__)])
            continue
        a, b = _native_dump(co), _native_dump(n)
        for k in sorted(set(a) | set(b)):
            if a.get(k) != b.get(k):
                fails.append(["field|%s" % k, "co%d %s: %s differs after round trip: %s -> %s" % (
                    i, co.co_name, k, json.dumps(a.get(k))[:160], json.dumps(b.get(k))[:160])])
                break
        if _portable_dump(p) != before:
            fails.append(["to_native-mutates-portable", "co%d: portable object changed by to_native()" % i])
        # hand-made native objects whose header integers no compiler derives from the names (co_nlocals: before 3.11)
        if True:
            for field, delta in ((("co_nlocals", 2), ("co_stacksize", 40), ("co_nlocals", -1)) if sys.version_info < (3, 11) else ()) + (
                    ("co_firstlineno", -co.co_firstlineno), ("co_firstlineno", 70000)):
                try:
                    odd = co.replace(**{field: max(0, getattr(co, field) + delta)})
                    if getattr(odd, field) == getattr(co, field):
                        continue
                except (ValueError, TypeError, SystemError):
                    continue
                try:
                    n2 = x.codetype.codeType2Portable(odd).to_native()
                except Exception as e:
                    fails.append(["odd-header|%s|raised|%s" % (field, type(e).__name__), "co%d %s with %s=%d: %s" % (
                        i, co.co_name, field, getattr(odd, field), e)])
                    continue
                a2, b2 = _native_dump(odd), _native_dump(n2)
                for k in sorted(set(a2) | set(b2)):
                    if a2.get(k) != b2.get(k):
                        fails.append(["odd-header|%s|field|%s" % (field, k), "co%d %s with %s=%d: %s differs after round trip: %s -> %s" % (
                            i, co.co_name, field, getattr(odd, field), k, json.dumps(a2.get(k))[:120], json.dumps(b2.get(k))[:120])])
                        break
        # replace() with several fields at once: every one of them is set, nothing else changes
        try:
            b4 = _portable_dump(p)
            q3 = p.replace(co_name="renamed3", co_filename="other3.py", co_firstlineno=777)
            qd3 = _portable_dump(q3)
            want3 = {"co_name": xcanon("renamed3", False), "co_filename": xcanon("other3.py", False), "co_firstlineno": xcanon(777, False)}
            for k3, v3 in sorted(want3.items()):
                if qd3.get(k3) != v3:
                    fails.append(["replace-several-fields|%s" % k3, "co%d: replace(co_name=, co_filename=, co_firstlineno=) left %s = %s" % (i, k3, qd3.get(k3))])
                    break
            for k3 in b4:
                if k3 not in want3 and qd3.get(k3) != b4[k3]:
                    fails.append(["replace-several-fields|other|%s" % k3, "co%d: replace of three fields changed %s" % (i, k3)])
                    break
            if _portable_dump(p) != b4:
                fails.append(["replace-mutates-original|several", "co%d: original changed by a replace() of three fields" % i])
            # a portable object holding its tables in their documented MUTABLE forms (lists): replace() must leave it alone
            pl = p.replace(co_consts=list(p.co_consts), co_names=list(p.co_names), co_varnames=list(p.co_varnames))
            kinds_before = (type(pl.co_consts), type(pl.co_names), type(pl.co_varnames), type(getattr(pl, "co_lnotab", None)))
            pl.replace(co_name="x")
            kinds_after = (type(pl.co_consts), type(pl.co_names), type(pl.co_varnames), type(getattr(pl, "co_lnotab", None)))
            if kinds_before != kinds_after or kinds_before[0] is not list:
                fails.append(["replace-mutates-original|list-fields", "co%d: an object holding list-typed tables was altered by replace(): %s -> %s" % (
                    i, [t_.__name__ for t_ in kinds_before], [t_.__name__ for t_ in kinds_after])])
        except Exception as e:
            fails.append(["replace-several-fields|raised|%s" % type(e).__name__, "co%d: %s" % (i, e)])
        # replace()
        try:
            if p.replace() is p or p.replace(co_name=p.co_name) is p:
                fails.append(["replace-returns-self|no-change", "co%d: replace() without a change returned the object itself, not a copy" % i])
        except Exception as e:
            fails.append(["replace-raised|no-change|%s" % type(e).__name__, "co%d: replace() raised %s" % (i, e)])
        for field, val in req.get("replace", []):
            if not hasattr(p, field):
                continue
            newv = uncanon(val)
            b4 = _portable_dump(p)
            try:
                q = p.replace(**{field: newv})
            except Exception as e:
                fails.append(["replace-raised|%s|%s" % (field, type(e).__name__), "co%d: replace(%s=...) raised %s" % (i, field, e)])
                continue
            after = _portable_dump(p)
            qd = _portable_dump(q)
            if after != b4:
                fails.append(["replace-mutates-original|%s" % field, "co%d: original changed by replace(%s=...)" % (i, field)])
            if q is p:
                fails.append(["replace-returns-self|%s" % field, "co%d: replace returned the same object" % i])
            if qd.get(field) != xcanon(newv, False):
                fails.append(["replace-field-not-set|%s" % field, "co%d: replace(%s=%r) gives %s" % (i, field, newv, qd.get(field))])
            for k in b4:
                if k != field and qd.get(k) != b4[k]:
                    fails.append(["replace-other-field-changed|%s" % field, "co%d: replace(%s=...) changed %s" % (i, field, k)])
                    break
            # deep independence: mutating a list field of the copy must not touch the original
    return {"fails": fails, "codes": infos, "portable_class": want_cls}


def op_x_rewrite(req):
    """C13: load a bytecode file with xdis on this host and write it back."""
    x = xd()
    src = scratch_path("rw_in.pyc")
    dst = scratch_path("rw_out.pyc")
    with open(src, "wb") as f:
        f.write(unhx(req["data"]))
    if os.path.exists(dst):
        os.remove(dst)
    version, ts, magic_int, co, is_pypy, size, sip = x.load.load_module(src)
    out = {"native": isinstance(co, types.CodeType), "loaded": True}
    try:
        x.load.write_bytecode_file(dst, co, magic_int, req.get("ts", 1234567), req.get("size", 4321))
    except Exception as e:
        import traceback
        out["refused"] = "%s: %s" % (type(e).__name__, e)
        out["tb"] = traceback.format_exc()[-1200:]
        return out
    with open(dst, "rb") as f:
        out["data"] = hx(f.read())
    return out


def op_x_c07(req):
    """C07: everything xdis decodes from a file on this host by one route + the classic listing."""
    x = xd()
    data = unhx(req["data"])
    path = scratch_path("c07.pyc")
    with open(path, "wb") as f:
        f.write(data)
    r = x_dump_file(data=data, path=path if req["route"] in ("load_module", "native2portable") else None, want_dis=True,
                    max_code=req.get("max_code"), route=req["route"], dup_lines=True)
    out = {"tree": r["tree"], "dis": r["dis"], "native": r["native"], "header": r["header"]}
    big = max([c.get("skipped", 0) for c in r["dis"]] or [0])
    if req.get("listing") and big > 3 * (req.get("max_code") or 10 ** 9):
        # xdis lists a code object in time quadratic in its size (a 22 KB module body takes four minutes): the listing of
        # such a file is skipped on every host alike
        out["listing"] = "LISTING SKIPPED: code object of %d bytes" % big
    elif req.get("listing"):
        import io
        buf = io.StringIO()
        try:
            x.disasm.disassemble_file(path, buf, req.get("fmt", "classic"))
            out["listing"] = buf.getvalue()
        except Exception as e:
            # a format that cannot list the file is C12's subject; here it is one more result that must not depend on the host
            out["listing"] = "LISTING RAISED %s: %s" % (type(e).__name__, e)
    return out


def _materialise(src):
    """Execute a generated (terminating, import-free) program and collect disassemblable objects."""
    ns = {"__name__": "vfprog"}
    top = compile(src, "<c20>", "exec", 0, True)
    try:
        exec(top, ns)
    except BaseException:
        pass                    # objects defined before the exception are still there
    objs = [("code", top), ("source", src),
            # dis compiles a source string as an expression when it is one - whatever its layout
            ("expr-source", "a + b"), ("expr-source", "(a +\n    b[1])"), ("expr-source", "[i for i in a\n if i]\n"),
            ("expr-source", "lambda q: (q,\n           q)")]
    seen = set()
    for name in sorted(k for k in ns if not k.startswith("__")):
        v = ns[name]
        if id(v) in seen:
            continue
        seen.add(id(v))
        if isinstance(v, types.FunctionType):
            co = v.__code__
            objs.append(("function", v))
            objs.append(("method", types.MethodType(v, object())))
            nargs = co.co_argcount + co.co_kwonlyargcount
            flags = co.co_flags
            if flags & 0x20 or flags & 0x80 or flags & 0x200:      # generator / coroutine / async generator
                try:
                    kw = dict((n, None) for n in co.co_varnames[co.co_argcount:nargs])
                    g = v(*([None] * co.co_argcount), **kw)
                    kind = "async_generator" if flags & 0x200 else ("coroutine" if flags & 0x80 else "generator")
                    objs.append((kind, g))
                except BaseException:
                    pass
        elif isinstance(v, type) and v.__module__ == "vfprog":
            objs.append(("class", v))
            for mname, mval in sorted(vars(v).items()):
                if isinstance(mval, staticmethod):
                    objs.append(("staticmethod-object", mval))
                elif isinstance(mval, classmethod):
                    objs.append(("classmethod-object", mval))
    return objs


def _argval_eq(a, b):
    if a is b:
        return True
    if hasattr(a, "co_code") and hasattr(b, "co_code"):
        # a source string is compiled afresh by every call
        return (a.co_name, a.co_firstlineno, a.co_code) == (b.co_name, b.co_firstlineno, b.co_code)
    try:
        if a == b and type(a) is type(b):
            return True
    except Exception:
        pass
    if repr(a) == repr(b) and type(a) is type(b):
        return True
    # constants of a source string are built afresh by every compile: NaN objects differ (and, from 3.10, hash by
    # identity, which reorders the sets that hold them) - compare by kind and value
    try:
        return type(a) is type(b) and canon(a) == canon(b)
    except Exception:
        return False


def op_x_std(req):
    """C20 on this host: xdis.std against the host's own dis on objects of one program."""
    import dis
    import opcode
    x = xd()
    xs = x.std
    fl = req.get("first_line")
    try:
        objs = _materialise(req["src"])
    except (SyntaxError, ValueError, OverflowError, RecursionError, MemoryError) as e:
        return {"reject": "%s: %s" % (type(e).__name__, e)}
    # xdis's instruction iterator is quadratic in the code size (the label finder runs once per instruction): objects
    # with a big code object make a case take minutes without exercising anything the small ones do not
    cap = int(req.get("max_code") or 1400)

    def small(obj):
        c = getattr(obj, "__code__", None) or getattr(obj, "gi_code", None) or getattr(obj, "cr_code", None) or \
            getattr(obj, "ag_code", None) or (getattr(getattr(obj, "__func__", None), "__code__", None)) or obj
        if isinstance(c, str):
            try:
                c = compile(c, "<size>", "exec")
            except Exception:
                return True
        return not hasattr(c, "co_code") or len(c.co_code) <= cap
    objs = [(k, o) for k, o in objs if small(o)]
    if req.get("exc_hex") is not None and sys.version_info >= (3, 11):
        # a native code object of NOPs carrying a given exception table (entries beyond 4096 code units need 3-byte varints)
        nop = opcode.opmap["NOP"]
        units = int(req["units"])
        base = compile("pass", "<exc>", "exec")
        objs = [("exccode", base.replace(co_code=bytes([nop, 0]) * units, co_exceptiontable=unhx(req["exc_hex"]),
                                         co_linetable=b""))]
    fails = []
    seen_kinds = {}
    hasarg = set(getattr(opcode, "hasarg", ()))
    table = set(opcode.hasconst) | set(opcode.hasname) | set(opcode.haslocal) | set(opcode.hasfree)
    jumps = set(opcode.hasjrel) | set(getattr(opcode, "hasjabs", ()))
    ref_cmp = list(opcode.cmp_op)
    x_cmp = list(xs.opc.cmp_op)

    def takes(op):
        return (op in hasarg) if hasarg else op >= opcode.HAVE_ARGUMENT

    def line_of(i):
        if PYV >= (3, 13):
            return i.line_number if i.starts_line else None
        return i.starts_line

    def compare_streams(kind, what, ref, got):
        got = [g for g in got if g.opname != "CACHE"]
        ref = [r for r in ref if r.opname != "CACHE"]
        if len(ref) != len(got):
            fails.append(["%s|%s|count" % (what, kind), "%s(%s): dis yields %d instructions, xdis.std %d" % (what, kind, len(ref), len(got))])
            return
        for r, g in zip(ref, got):
            if (r.opcode, r.opname.replace("+", "_"), r.offset) != (g.opcode, g.opname.replace("+", "_"), g.offset):
                fails.append(["%s|%s|opcode-offset" % (what, kind), "%s(%s): dis %s@%d, xdis.std %s@%d" % (what, kind, r.opname, r.offset, g.opname, g.offset)])
                return
            if takes(r.opcode) and r.arg != g.arg:
                fails.append(["%s|%s|arg|%s" % (what, kind, r.opname), "%s(%s) %s@%d: arg %r vs %r" % (what, kind, r.opname, r.offset, r.arg, g.arg)])
                return
            rj = bool(r.is_jump_target)
            if PYV >= (3, 13) and rj and r.offset not in jt313.get(what, ()):
                rj = False      # 3.13's dis also labels the start/end of exception ranges; see C04
            if rj != bool(g.is_jump_target):
                fails.append(["%s|%s|is_jump_target" % (what, kind), "%s(%s) %s@%d: is_jump_target dis %s, xdis.std %s" % (
                    what, kind, r.opname, r.offset, r.is_jump_target, g.is_jump_target)])
                return
            if line_of(r) != g.starts_line:
                fails.append(["%s|%s|starts_line|first_line=%s" % (what, kind, "None" if fl is None else "given"),
                              "%s(%s, first_line=%r) %s@%d: starts_line dis %r, xdis.std %r" % (what, kind, fl, r.opname, r.offset, line_of(r), g.starts_line)])
                return
            if takes(r.opcode):
                if r.opcode in table or r.opcode in jumps:
                    if type(r.argval).__name__ == "_Unknown":
                        continue
                    if not _argval_eq(r.argval, g.argval):
                        fails.append(["%s|%s|argval|%s" % (what, kind, r.opname), "%s(%s) %s@%d arg %r: argval dis %r, xdis.std %r" % (
                            what, kind, r.opname, r.offset, r.arg, r.argval, g.argval)])
                        return
                elif r.opcode in opcode.hascompare:
                    rv = r.argval
                    if isinstance(rv, str) and rv.startswith("bool("):
                        rv = rv[5:-1]
                    ri = ref_cmp.index(rv) if rv in ref_cmp else rv
                    gi = x_cmp.index(g.argval) if g.argval in x_cmp else g.argval
                    if ri != gi:
                        fails.append(["%s|%s|argval|%s" % (what, kind, r.opname), "%s(%s) %s@%d: compare operator dis %r, xdis.std %r" % (
                            what, kind, r.opname, r.offset, r.argval, g.argval)])
                        return

    jt313 = {}
    for kind, obj in objs:
        seen_kinds[kind] = seen_kinds.get(kind, 0) + 1
        if PYV >= (3, 13):
            try:
                cobj = x.cross_dis.get_code_object(obj)
                tg = set(dis.findlabels(cobj.co_code))
                jt313["get_instructions"] = set(tg)
                jt313["Bytecode"] = tg | set(e.target for e in dis._parse_exception_table(cobj))
            except Exception:
                jt313 = {}
        for what, rf, xf in (
            ("get_instructions", lambda: list(dis.get_instructions(obj, first_line=fl)),
             lambda: list(xs.get_instructions(obj, first_line=fl))),
            ("Bytecode", lambda: list(dis.Bytecode(obj, first_line=fl)), lambda: list(xs.Bytecode(obj, first_line=fl))),
        ):
            if kind == "exccode" and what != "Bytecode":
                continue
            try:
                ref = rf()
            except Exception as e:
                continue            # dis itself does not accept this object here
            try:
                got = xf()
            except Exception as e:
                fails.append(["%s|%s|raised|%s" % (what, kind, type(e).__name__), "dis.%s accepts a %s, xdis.std.%s raises %s: %s" % (what, kind, what, type(e).__name__, e)])
                continue
            compare_streams(kind, what, ref, got)
        if kind == "exccode":
            continue        # (a big synthetic object: only the handler marks are of interest; the iterator is quadratic)
        if kind in ("function", "code") and fl is None:
            try:
                rb, gb = dis.Bytecode(obj), xs.Bytecode(obj)
                list(rb), list(gb)
                gb.dis()
                compare_streams(kind, "Bytecode", list(rb), list(gb))          # a second pass over the same objects
            except Exception as e:
                fails.append(["Bytecode(second pass)|%s|raised|%s" % (kind, type(e).__name__), "second iteration raised %s" % e])
        for what, rf, xf in (("code_info", lambda: dis.code_info(obj), lambda: xs.code_info(obj)),
                             ("dis", lambda: dis.dis(obj, file=__import__("io").StringIO()), lambda: xs.dis(obj, file=__import__("io").StringIO()))):
            try:
                rf()
            except Exception:
                continue
            try:
                xf()
            except Exception as e:
                fails.append(["%s|%s|raised|%s" % (what, kind, type(e).__name__), "dis.%s accepts a %s, xdis.std.%s raises %s: %s" % (what, kind, what, type(e).__name__, str(e)[:200])])
        co = None
        if kind == "code":
            co = obj
        elif kind == "function":
            co = obj.__code__
        if co is not None and fl is None:
            # a position inside the code object (what Bytecode.from_traceback passes): still the same instructions
            for pos in (0, 2, len(co.co_code) // 4 * 2):
                try:
                    ref = list(dis.Bytecode(co, current_offset=pos))
                except Exception:
                    continue
                try:
                    got = list(xs.Bytecode(co, current_offset=pos))
                    xs.Bytecode(co, current_offset=pos).dis()
                except Exception as e:
                    fails.append(["Bytecode(current_offset)|%s|raised|%s" % (kind, type(e).__name__), "xdis.std.Bytecode(code, current_offset=%d) raised %s: %s" % (pos, type(e).__name__, e)])
                    continue
                compare_streams(kind, "Bytecode", ref, got)

        if co is not None:
            try:
                a, b = sorted(set(dis.findlabels(co.co_code))), sorted(set(xs.findlabels(co.co_code)))
                if a != b:
                    fails.append(["findlabels|%s" % kind, "findlabels: dis %s, xdis.std %s" % (a[:10], b[:10])])
            except Exception as e:
                fails.append(["findlabels|%s|raised|%s" % (kind, type(e).__name__), "xdis.std.findlabels raised %s" % e])
            try:
                a, b = [list(t) for t in dis.findlinestarts(co)], [list(t) for t in xs.findlinestarts(co)]
                if a != b:
                    fails.append(["findlinestarts|%s" % kind, "findlinestarts: dis %s, xdis.std %s" % (a[:8], b[:8])])
            except Exception as e:
                fails.append(["findlinestarts|%s|raised|%s" % (kind, type(e).__name__), "xdis.std.findlinestarts raised %s" % e])
    # module-level tables
    for nm in ("opmap", "opname", "hasconst", "hasname", "HAVE_ARGUMENT", "EXTENDED_ARG"):
        rv, gv = getattr(dis, nm), getattr(xs, nm)
        if nm == "opmap":
            rv = dict((k.replace("+", "_"), v) for k, v in rv.items() if v < 256)
            gv = dict((k.replace("+", "_"), v) for k, v in gv.items() if v < 256)
        elif nm == "opname":
            rv = [n.replace("+", "_") for n in list(rv)[:256]]
            gv = [n.replace("+", "_") for n in list(gv)[:256]]
            rv = [("<>" if n.startswith("<") else n) for n in rv]
            gv = [("<>" if n.startswith("<") else n) for n in gv]
        elif nm in ("hasconst", "hasname"):
            rv, gv = sorted(v for v in rv if v < 256), sorted(v for v in gv if v < 256)
        if rv != gv:
            fails.append(["table|%s" % nm, "xdis.std.%s differs from dis.%s" % (nm, nm)])
    for kind, obj in objs:
        if kind in ("coroutine",):
            try:
                obj.close()
            except Exception:
                pass
    return {"fails": fails, "kinds": seen_kinds}


def _digest(obj):
    import hashlib
    return hashlib.sha1(json.dumps(obj, sort_keys=True, default=repr).encode("utf-8", "surrogatepass")).hexdigest()[:16]


def _table_digest(opc):
    d = {}
    for nm in ("opmap", "opname", "oppush", "oppop", "HAVE_ARGUMENT", "EXTENDED_ARG", "EXTENDED_ARG_SHIFT", "version_tuple",
               "hascompare", "hascondition", "hasconst", "hasfree", "hasjabs", "hasjrel", "haslocal", "hasname", "hasnargs",
               "hasstore", "hasvargs", "nofollow", "cmp_op"):
        if hasattr(opc, nm):
            v = getattr(opc, nm)
            if isinstance(v, dict):
                v = sorted(v.items())
            elif isinstance(v, (set, frozenset)):
                v = sorted(v)
            elif isinstance(v, tuple):
                v = list(v)
            d[nm] = _digest(v)
    for nm in ("findlabels", "findlinestarts"):
        f = getattr(opc, nm, None)
        d[nm] = getattr(f, "__name__", repr(f))
    return d


_ADDR = None


def _norm_addr(t):
    """addresses differ between processes, and so does the element order of sets whose members hash by
    address (None before 3.12, Ellipsis, code objects): lines showing a set become character multisets"""
    global _ADDR
    if _ADDR is None:
        import re
        _ADDR = re.compile(r"0x[0-9a-f]{6,}")
    t = _ADDR.sub("0xX", t)
    if "{" in t:
        t = "\n".join(("".join(sorted(ln)) if ("{" in ln) else ln) for ln in t.split("\n"))
    return t


def _stable(v, depth=0):
    """order- and address-independent description of a module-level container"""
    if depth > 5:
        return "..."
    if isinstance(v, (int, float, str, bytes, bool)) or v is None:
        return repr(v)
    if isinstance(v, dict):
        return ["D"] + sorted([[_stable(k, depth + 1), _stable(x_, depth + 1)] for k, x_ in list(v.items())], key=repr)
    if isinstance(v, (set, frozenset)):
        return ["S"] + sorted([_stable(x_, depth + 1) for x_ in list(v)], key=repr)
    if isinstance(v, (list, tuple)):
        return ["L"] + [_stable(x_, depth + 1) for x_ in list(v)]
    return "<%s %s>" % (type(v).__name__, getattr(v, "__name__", ""))


def _globals_digest():
    """{module: {name: digest}} of every module-level dict / list / set / tuple of the loaded xdis modules"""
    out = {}
    for name, mod in sorted(sys.modules.items()):
        if not (name == "xdis" or name.startswith("xdis.")) or mod is None:
            continue
        d = {}
        for attr, val in sorted(vars(mod).items()):
            if attr.startswith("__") or not isinstance(val, (dict, list, set, frozenset, tuple)):
                continue
            if val is sys.modules or attr in ("loc",):
                continue
            try:
                d[attr] = _digest(_stable(val))
            except Exception as e:
                d[attr] = "undigestable:%s" % type(e).__name__
        out[name] = d
    # interpreter-wide settings a library call has no business changing
    out["<interpreter>"] = {"recursionlimit": str(sys.getrecursionlimit()),
                            "int_max_str_digits": str(sys.get_int_max_str_digits()) if hasattr(sys, "get_int_max_str_digits") else "n/a",
                            "stdout_is_original": str(sys.stdout is not None), "displayhook": str(sys.displayhook is sys.__displayhook__),
                            "excepthook": str(sys.excepthook is sys.__excepthook__)}
    return out


_API_CACHE = {}


def do_hist_op(op):
    """One public operation of C18; returns a JSON-able, deterministic description of its result
    (an exception is a result too)."""
    x = xd()
    k = op["k"]
    corpus = os.path.join(os.environ.get("VERIF_REPO", "/repo"), "test")

    def fpath(f):
        # "@gen/..." = files the driver generated into the shared scratch directory
        if f.startswith("@"):
            return os.path.join(os.environ.get("VF_SCRATCH", "/tmp"), f[1:])
        return os.path.join(corpus, f)
    try:
        if k == "load_cut":
            data = open(fpath(op["f"]), "rb").read()
            n = max(0, min(len(data), int(len(data) * op["cut"] / 100.0)))
            p = os.path.join(scratch_dir(), "cut.pyc")
            with open(p, "wb") as fh:
                fh.write(data[:n])
            try:
                t = x.load.load_module(p)
            except BaseException as e:      # noqa
                return {"raised": type(e).__name__, "msg": _norm_addr(str(e).replace(p, "<cut>"))[:120]}
            return {"header": [list(t[0]), t[1], t[2], bool(t[4]), t[5], t[6]], "tree": _digest(xcanon(t[3], tuple(t[0]) < (3, 0)))}
        if k == "load":
            t = x.load.load_module(fpath(op["f"]))
            py2 = tuple(t[0]) < (3, 0)
            return {"header": [list(t[0]), t[1], t[2], bool(t[4]), t[5], t[6]], "tree": _digest(xcanon(t[3], py2))}
        if k == "dis":
            import io
            out = io.StringIO()
            x.disasm.disassemble_file(fpath(op["f"]), out, op["fmt"])
            txt = _norm_addr(out.getvalue())
            return {"text": _digest(txt), "lines": txt.count("\n")}
        if k == "opc":
            vt = tuple(int(p) for p in op["v"].split("."))
            return _table_digest(x.disasm.get_opcode(vt, op.get("pypy", False)))
        if k == "std":
            vt = tuple(int(p) for p in op["v"].split("."))
            api = x.std.make_std_api(vt, None)
            q = op["q"]
            if q[0] == "opname":
                return {"r": api.opname[q[1]]}
            if q[0] == "stack_effect":
                return {"r": api.stack_effect(q[1], q[2])}
            if q[0] == "hasconst":
                return {"r": q[1] in api.hasconst, "n": q[1] in api.hasname, "ha": api.HAVE_ARGUMENT, "ea": api.EXTENDED_ARG}
            return {"r": None}
        if k == "bc":
            t = x.load.load_module(fpath(op["f"]))
            opc = x.disasm.get_opcode(t[0], t[4])
            ins = [[i.offset, i.opname, i.arg, _norm_addr(repr(i.argval)), i.is_jump_target, i.starts_line]
                   for i in x.bytecode.Bytecode(t[3], opc)]
            return {"n": len(ins), "digest": _digest(ins)}
        if k == "mdumps":
            b = x.marsh.dumps(build_shared(op["value"]))
            # element order inside sets depends on addresses (None, Ellipsis hash by id): compare the value
            # the bytes stand for, not the bytes
            return {"len": len(b), "value": canon(marshal.loads(b))}
        if k == "mloads":
            v = build_shared(op["value"])
            return {"back": canon(x.marsh.loads(marshal.dumps(v, op.get("ver", 1))))}
        if k == "mloads_code":
            co = compile(op["src"], "<h>", "exec", 0, True)
            back = x.marsh.loads(marshal.dumps(co, op.get("ver", 2)))
            return {"type": type(back).__name__, "name": getattr(back, "co_name", None),
                    "code": hx(back.co_code) if hasattr(back, "co_code") else None}
        if k == "globals":
            return _globals_digest()
        if k == "globals_after":
            do_hist_op(op["op"])
            return _globals_digest()
        if k == "stdbc":
            # an API object made once and kept (what a long-running tool does): its answers must not change because
            # other API objects were made in between
            import io
            t = x.load.load_module(fpath(op["f"]))
            vt = tuple(t[0][:2])
            key = (vt, bool(t[4]))
            if key not in _API_CACHE:
                _API_CACHE[key] = x.std.make_std_api(vt, "pypy" if t[4] else None)
            api = _API_CACHE[key]
            ins = [[i.offset, i.opname, i.arg, _norm_addr(repr(i.argval)), i.is_jump_target] for i in api.get_instructions(t[3])]
            out = io.StringIO()
            api.dis(t[3], file=out)
            return {"n": len(ins), "digest": _digest(ins), "dis": _digest(_norm_addr(out.getvalue())), "opname100": api.opname[100],
                    "labels": sorted(set(api.findlabels(t[3].co_code)))[:50]}
        if k == "showcode":
            import io
            t = x.load.load_module(fpath(op["f"]))
            api = x.std.make_std_api(tuple(t[0][:2]), "pypy" if t[4] else None)
            out = io.StringIO()
            api.show_code(t[3], file=out)
            txt = _norm_addr(out.getvalue())
            # ... and the default destination, sys.stdout (its own code path)
            import contextlib
            out2 = io.StringIO()
            with contextlib.redirect_stdout(out2):
                api.show_code(t[3])
            txt2 = _norm_addr(out2.getvalue())
            return {"text": _digest(txt), "flags": [ln for ln in txt.splitlines() if ln.startswith("Flags")][:1],
                    "stdout_text": _digest(txt2), "stdout_flags": [ln for ln in txt2.splitlines() if ln.startswith("Flags")][:1]}
        if k == "opcmod":
            m = x.op_imports.get_opcode_module(tuple(int(q) for q in op["v"].split(".")), op.get("variant"))
            return {"table": m.__name__, "version": list(m.version_tuple)}
        if k == "lines2":
            # one loaded code object, its line starts asked for twice (and its listing made in between)
            t = x.load.load_module(fpath(op["f"]))
            opc = x.disasm.get_opcode(t[0], t[4])
            first = [[[a, b] for a, b in opc.findlinestarts(c)] for c in x_walk_codes(t[3])][:30]
            for c in x_walk_codes(t[3]):
                if len(c.co_code) < 600:
                    list(x.bytecode.Bytecode(c, opc))
            second = [[[a, b] for a, b in opc.findlinestarts(c)] for c in x_walk_codes(t[3])][:30]
            # ... and one Bytecode object (with a first_line) listed twice
            d1, d2 = [], []
            for c in list(x_walk_codes(t[3]))[:6]:
                if len(c.co_code) < 600 and hasattr(c, "co_firstlineno"):
                    b = x.bytecode.Bytecode(c, opc, first_line=1000)
                    d1.append(_norm_addr(b.dis()))
                    d2.append(_norm_addr(b.dis()))
            return {"first": _digest([first, d1]), "second": _digest([second, d2]), "n": len(first)}
        if k == "labels":
            t = x.load.load_module(fpath(op["f"]))
            opc = x.disasm.get_opcode(t[0], t[4])
            out = []
            for c in x_walk_codes(t[3]):
                out.append(sorted(opc.findlabels(c.co_code, opc)))
            return {"labels": out[:40]}
        if k == "tables":
            seen = {}
            for key, m in x.op_imports.op_imports.items():
                seen[m.__name__] = m
            return dict((n, _digest(_table_digest(m))) for n, m in sorted(seen.items()))
        return {"unknown-op": k}
    except BaseException as e:      # noqa
        return {"raised": type(e).__name__, "msg": _norm_addr(str(e))[:200]}


def op_x_do(req):
    return {"result": do_hist_op(req["do"])}


def op_x_fresh(req):
    """The operation done as the FIRST thing in a process that has only imported xdis: this worker
    (which never runs an operation itself) forks, and the child runs it and reports back."""
    xd()
    r, w = os.pipe()
    pid = os.fork()
    if pid == 0:
        try:
            os.close(r)
            out = json.dumps({"result": do_hist_op(req["do"])})
            with os.fdopen(w, "w") as f:
                f.write(out)
        finally:
            os._exit(0)
    os.close(w)
    with os.fdopen(r) as f:
        data = f.read()
    os.waitpid(pid, 0)
    if not data:
        return {"result": {"raised": "ChildDied", "msg": ""}}
    return json.loads(data)


# ---------------------------------------------------------------------------------- C11
_HOSTILE = {"hook": False, "rec": None, "seeds": [], "n": 0}
_BAD_EVENTS = ("exec", "compile", "os.remove", "os.rename", "os.mkdir", "os.rmdir", "os.system", "os.exec", "os.posix_spawn",
               "os.spawn", "os.fork", "os.forkpty", "subprocess.Popen", "os.chmod", "os.chown", "os.link", "os.symlink",
               "os.truncate", "shutil.rmtree", "shutil.move", "os.putenv", "ctypes.dlopen")


def _audit_hook(event, args):
    rec = _HOSTILE["rec"]
    if rec is None:
        return
    bad = None
    if event in _BAD_EVENTS or event.startswith("socket."):
        bad = event
    elif event == "open":
        path, mode, flags = (list(args) + [None, None, None])[:3]
        w = False
        if isinstance(mode, str) and any(c in mode for c in "wax+"):
            w = True
        if isinstance(flags, int) and flags & (os.O_WRONLY | os.O_RDWR | os.O_CREAT | os.O_TRUNC | os.O_APPEND):
            w = True
        if w:
            bad = "open-for-write:%s" % (path,)
    elif event == "import":
        mod = args[0]
        root = mod.split(".")[0]
        std = getattr(sys, "stdlib_module_names", None)
        if root != "xdis" and not root.startswith("_") and std is not None and root not in std:
            bad = "import:%s" % mod
    if bad is None:
        return
    # traceback.print_exc() itself compiles the source line (caret placement) and reads sources
    f = sys._getframe(1)
    depth = 0
    while f is not None and depth < 60:
        fn = f.f_code.co_filename
        if fn.endswith(("traceback.py", "linecache.py", "tokenize.py", "ast.py")):
            return
        f = f.f_back
        depth += 1
    rec.append(bad)


def hostile_one(data, path, mem=False):
    """load_module on hostile bytes: outcome, cpu seconds, memory peak, forbidden audit events."""
    import time
    x = xd()
    with open(path, "wb") as f:
        f.write(data)
    rec = []
    peak = None
    if mem:
        import tracemalloc
        tracemalloc.start()
    _HOSTILE["rec"] = rec
    t0 = time.process_time()
    try:
        try:
            r = x.load.load_module(path)
            kind = "tuple" if isinstance(r, tuple) and len(r) == 7 else "returned:%s" % type(r).__name__
            detail = ""
            reached = True
        except ImportError as e:
            kind = "ImportError"
            detail = str(e)[:80]
            reached = detail.startswith("Ill-formed")
        except BaseException as e:      # noqa
            import traceback
            kind = "other:%s" % type(e).__name__
            tb = traceback.format_exc()
            detail = tb[-1200:]
            reached = True
    finally:
        cpu = time.process_time() - t0
        _HOSTILE["rec"] = None
        if mem:
            import tracemalloc
            peak = tracemalloc.get_traced_memory()[1]
            tracemalloc.stop()
    return {"kind": kind, "detail": detail, "cpu": cpu, "peak": peak, "audit": rec, "reached": reached}


def hostile_one_forked(data, path, mem, limit):
    """hostile_one in a forked child: the built-in marshal (native fast path) can crash the
    interpreter or spin for minutes inside C code on corrupt data, where no Python-level
    timeout can reach it."""
    import select
    import signal
    r, w = os.pipe()
    pid = os.fork()
    if pid == 0:
        try:
            os.close(r)
            out = json.dumps(hostile_one(data, path + ".child", mem))
            with os.fdopen(w, "w") as f:
                f.write(out)
        finally:
            os._exit(0)
    os.close(w)
    ready, _, _ = select.select([r], [], [], limit * 1.5 + 2.0)
    if not ready:
        os.kill(pid, signal.SIGKILL)
        os.waitpid(pid, 0)
        os.close(r)
        return {"kind": "tuple-or-ImportError-not-reached", "detail": "", "cpu": limit * 1.5 + 2.0, "peak": None, "audit": [],
                "reached": True, "timeout": True}
    with os.fdopen(r) as f:
        txt = f.read()
    _, status = os.waitpid(pid, 0)
    if not txt:
        return {"kind": "interpreter-died", "detail": "exit status %s" % status, "cpu": 0.0, "peak": None, "audit": [],
                "reached": True, "died": True}
    return json.loads(txt)


def _expand_hostile(spec):
    """concrete inputs of one compact spec"""
    if "hex" in spec:
        yield spec, unhx(spec["hex"])
        return
    seed = _HOSTILE["seeds"][spec["seed"]]
    if "prefix" in spec:
        lo, hi = spec["prefix"]
        for n in range(lo, min(hi, len(seed) + 1)):
            yield {"seed": spec["seed"], "prefix": [n, n + 1]}, seed[:n]
    elif "subst" in spec:
        pos, lo, hi = spec["subst"]
        if pos < len(seed):
            for b in range(lo, hi):
                if b != seed[pos]:
                    yield {"seed": spec["seed"], "subst": [pos, b, b + 1]}, seed[:pos] + bytes([b]) + seed[pos + 1:]
    elif "edits" in spec:
        data = bytearray(seed)
        for e in spec["edits"]:
            op = e[0]
            if op == "ins":
                p = e[1] % (len(data) + 1)
                data[p:p] = unhx(e[2])
            elif op == "del":
                p = e[1] % (len(data) + 1)
                del data[p:p + e[2]]
            elif op == "dup":
                p = e[1] % (len(data) + 1)
                data[p:p] = data[p:p + e[2]] * e[3]
            elif op == "set":
                if data:
                    data[e[1] % len(data)] = e[2]
            elif op == "splice":
                other = _HOSTILE["seeds"][e[1] % len(_HOSTILE["seeds"])]
                p = e[2] % (len(data) + 1)
                q = e[3] % (len(other) + 1)
                data = data[:p] + bytearray(other[q:])
            elif op == "trunc":
                del data[e[1] % (len(data) + 1):]
        yield spec, bytes(data)


def op_x_hostile_seeds(req):
    _HOSTILE["seeds"] = [unhx(h) for h in req["seeds"]]
    if not _HOSTILE["hook"]:
        xd()
        import traceback, linecache, unicodedata, datetime     # noqa: lazy stdlib imports are not the subject
        sys.addaudithook(_audit_hook)
        _HOSTILE["hook"] = True
        # warm-up: first call imports lazily
        hostile_one(b"garbage" * 20, scratch_path("hostile.pyc"))
    return {"n": len(_HOSTILE["seeds"])}


def op_x_hostile(req):
    path = scratch_path("hostile.pyc")
    n = reached = 0
    kinds = {}
    bad = []
    cpu_small, cpu_big = req.get("cpu_small", 2.0), req.get("cpu_big", 20.0)
    for spec in req["items"]:
        for cspec, data in _expand_hostile(spec):
            n += 1
            mem = bool(req.get("mem")) or (_HOSTILE["n"] % 16 == 0)
            _HOSTILE["n"] += 1
            import importlib.util
            native = data[:4] == importlib.util.MAGIC_NUMBER
            limit = cpu_small if len(data) <= 65536 else cpu_big
            if native or req.get("mem"):
                # built-in marshal path, or an adversarial structure: can hang or die inside C code / deep recursion
                r = hostile_one_forked(data, path, mem, limit)
            else:
                r = hostile_one(data, path, mem)
            if r["reached"]:
                reached += 1
            kinds[r["kind"]] = kinds.get(r["kind"], 0) + 1
            problems = []
            if r.get("died"):
                problems.append(["interpreter-died", r["detail"], ""])
            elif r.get("timeout"):
                problems.append(["cpu", "no answer within %.0fs for %d bytes (killed)" % (r["cpu"], len(data)), ""])
            elif r["kind"] not in ("tuple", "ImportError"):
                problems.append(["exception", r["kind"], r["detail"]])
            for ev in r["audit"]:
                problems.append(["audit", ev, ""])
            if r["cpu"] > limit and not r.get("timeout"):
                again = [(hostile_one_forked(data, path, False, limit) if (native or req.get("mem")) else hostile_one(data, path))["cpu"] for _ in range(2)]
                if min(again) > limit:
                    problems.append(["cpu", "%.1fs for %d bytes" % (min([r["cpu"]] + again), len(data)), ""])
                else:
                    kinds["cpu-inconclusive"] = kinds.get("cpu-inconclusive", 0) + 1
            if r["peak"] is not None and r["peak"] > 64 * 2 ** 20 + 256 * len(data):
                problems.append(["memory", "%d MiB peak for %d bytes" % (r["peak"] >> 20, len(data)), ""])
            if problems and len(bad) < 12:
                bad.append({"spec": cspec if "hex" in cspec or len(data) > 4096 else {"hex": hx(data)}, "len": len(data),
                            "problems": problems, "native": native})
    return {"n": n, "reached": reached, "kinds": kinds, "bad": bad}


def op_x_lines_host(req):
    """C05 on this host: line starts of native code objects and of their portable copies against the host's dis"""
    import dis
    x = xd()
    try:
        top = compile(req["src"], "<c05>", "exec", 0, True)
    except (SyntaxError, ValueError, OverflowError, RecursionError, MemoryError) as e:
        return {"reject": "%s: %s" % (type(e).__name__, e)}
    opc = x.op_imports.get_opcode_module(sys.version_info, None)
    fails = []
    n = 0
    for i, co in enumerate(walk_codes(top)):
        n += 1
        ref = [list(t) for t in dis.findlinestarts(co)]
        for what, f in (("opc.findlinestarts(native)", lambda: opc.findlinestarts(co)),
                        ("xdis.findlinestarts(native)", lambda: x.findlinestarts(co)),
                        ("std.findlinestarts(native)", lambda: x.std.findlinestarts(co)),
                        ("opc.findlinestarts(codeType2Portable(native))", lambda: opc.findlinestarts(x.codetype.codeType2Portable(co))),
                        ("opc.findlinestarts(load_code(marshal.dumps(native)))",
                         lambda: opc.findlinestarts(x.unmarshal.load_code(marshal.dumps(co), x.magics.PYTHON_MAGIC_INT)))):
            try:
                got = [list(t) for t in f()]
            except Exception as e:
                fails.append(["%s|raised|%s" % (what, type(e).__name__), "co%d %s: %s raised %s" % (i, co.co_name, what, e)])
                continue
            if got != ref:
                fails.append([what, "co%d %s: %s = %s, dis.findlinestarts = %s" % (i, co.co_name, what, got[:6], ref[:6])])
        if len(co.co_code) <= 1200:
            try:
                p = x.codetype.codeType2Portable(co)
                want = dict((a, b) for a, b in ref)
                for ins in x.bytecode.Bytecode(p, opc, dup_lines=False):
                    if ins.opname != "CACHE" and ins.starts_line != want.get(ins.offset):
                        fails.append(["starts_line(portable copy)", "co%d %s at %d: starts_line %r, dis %r" % (
                            i, co.co_name, ins.offset, ins.starts_line, want.get(ins.offset))])
                        break
            except Exception as e:
                fails.append(["starts_line(portable copy)|raised|%s" % type(e).__name__, "co%d: %s" % (i, e)])
    return {"fails": fails, "codes": n}


def op_x_stream_host(req):
    """C02 on this host: the instruction stream of NATIVE code objects (with and without a current position, the way
    Bytecode.from_traceback builds it) against the host's own dis"""
    import dis
    x = xd()
    try:
        top = compile(req["src"], "<c02>", "exec", 0, True)
    except (SyntaxError, ValueError, OverflowError, RecursionError, MemoryError) as e:
        return {"reject": "%s: %s" % (type(e).__name__, e)}
    opc = x.op_imports.get_opcode_module(sys.version_info, None)
    fails = []
    n = 0
    for i, co in enumerate(walk_codes(top)):
        if len(co.co_code) > 1200:
            continue
        n += 1
        kw = {"show_caches": True} if (3, 11) <= sys.version_info[:2] < (3, 13) else {}
        ref = [(r.offset, r.opcode, r.arg if r.opcode >= dis.HAVE_ARGUMENT or r.opcode in getattr(dis, "hasarg", ()) else None)
               for r in dis.get_instructions(co, **kw)]
        if sys.version_info[:2] >= (3, 13):
            ref = [t for t in ref]
        for what, f in (("Bytecode(native)", lambda: x.bytecode.Bytecode(co, opc)),
                        ("Bytecode(native, current_offset=0)", lambda: x.bytecode.Bytecode(co, opc, current_offset=0)),
                        ("Bytecode(native, current_offset=mid)", lambda: x.bytecode.Bytecode(co, opc, current_offset=len(co.co_code) // 4 * 2))):
            try:
                got = [(g.offset, g.opcode, g.arg) for g in f()]
            except Exception as e:
                fails.append(["%s|raised|%s" % (what, type(e).__name__), "co%d %s: %s raised %s" % (i, co.co_name, what, e)])
                continue
            if sys.version_info[:2] >= (3, 13):
                got = [t for t in got if opc.opname[t[1]] != "CACHE"]
            if [t[:2] for t in got] != [t[:2] for t in ref]:
                k = next((j for j in range(min(len(got), len(ref))) if got[j][:2] != ref[j][:2]), min(len(got), len(ref)))
                fails.append(["%s|opcode-offset" % what, "co%d %s: %s row %d is %s, dis has %s (%d / %d rows)" % (
                    i, co.co_name, what, k, got[k:k + 1], ref[k:k + 1], len(got), len(ref))])
            else:
                for g, r in zip(got, ref):
                    if r[2] is not None and g[2] != r[2]:
                        fails.append(["%s|operand" % what, "co%d %s: %s at %d: operand %r, dis %r" % (i, co.co_name, what, g[0], g[2], r[2])])
                        break
    return {"fails": fails, "codes": n}


def op_x_std_api(req):
    """C20 case B: make_std_api(version) on this host applied to a file of that version."""
    x = xd()
    data = unhx(req["data"])
    version, ts, magic_int, co, is_pypy, size, sip = x_load_bytes(data)
    vt = tuple(int(p) for p in req["version"].split("."))
    api = x.std.make_std_api(vt, None)
    opc = api.opc
    out = []
    for c in x_walk_codes(co):
        d = {"codelen": len(c.co_code)}
        d["labels"] = sorted(set(api.findlabels(c.co_code)))
        d["linestarts"] = [[a, b] for a, b in api.findlinestarts(c)]
        if req.get("max_code") and len(c.co_code) > req["max_code"]:
            d["skipped"] = len(c.co_code)
            out.append(d)
            continue
        try:
            cmp_op = list(getattr(opc, "cmp_op", ()))
            d["instrs"] = [instr_to_dict(i, opc, vt < (3, 0), cmp_op) for i in api.get_instructions(c)]
        except Exception as e:
            import traceback
            d["instrs_err"] = "%s: %s" % (type(e).__name__, e)
            d["instrs_tb"] = traceback.format_exc()[-1500:]
        out.append(d)
    return {"dis": out}


OPS = {}
for _n, _f in list(globals().items()):
    if _n.startswith("op_"):
        OPS[_n[3:]] = _f


def register(name, f):
    OPS[name] = f


# --------------------------------------------------------------------------------------

def serve():
    # private protocol channel; fd 1 goes to a scratch file so stray prints are measurable
    proto_fd = os.dup(1)
    if PY2:
        proto = os.fdopen(proto_fd, "w")
    else:
        proto = os.fdopen(proto_fd, "w", encoding="utf-8")
    cap_path = os.path.join(scratch_dir(), "stdout.cap")
    cap = open(cap_path, "w+")
    os.dup2(cap.fileno(), 1)
    sys.stdout = os.fdopen(1, "w") if PY2 else open(1, "w", closefd=False)
    if os.environ.get("VF_ROLE") == "ref" and hasattr(sys, "set_int_max_str_digits"):
        # a reference interpreter never imports xdis: its own canonical forms may print integers of any size.
        # (host workers keep the default: the limit is process-wide state that C18 watches)
        sys.set_int_max_str_digits(0)
    extra = os.environ.get("VF_WORKER_EXTRA")
    if extra:
        for m in extra.split(","):
            __import__(m)
    stdin = sys.stdin
    while True:
        line = stdin.readline()
        if not line:
            break
        try:
            req = json.loads(line)
        except ValueError:
            continue
        op = req.get("op")
        if op == "quit":
            break
        try:
            res = OPS[op](req)
            resp = {"ok": True, "r": res}
        except BaseException as e:  # noqa
            import traceback
            resp = {"ok": False, "err": "%s: %s" % (type(e).__name__, e),
                    "tb": traceback.format_exc()[-3000:]}
        try:
            sys.stdout.flush()
        except Exception:
            pass
        cap.seek(0)
        stray = cap.read()
        if stray:
            resp["out"] = stray[:2000]
            cap.seek(0)
            cap.truncate()
        proto.write(json.dumps(resp) + "\n")
        proto.flush()


if __name__ == "__main__":
    sys.path.insert(0, os.path.dirname(os.path.dirname(os.path.abspath(__file__))))
    serve()
