"""Entry point: check <ID> <quick|thorough> | check <ID> --replay FILE

Verdicts: exit 0 = held on everything explored (KNOWN-FINDING lines allowed);
exit 1 + "VIOLATION property=<id> replay=<path>" = unlisted violation;
exit 2 = harness error (never a violation).
"""
import hashlib
import importlib
import json
import os
import shutil
import subprocess
import sys
import tempfile
import time
import traceback

VERIF = os.path.dirname(os.path.dirname(os.path.abspath(__file__)))
sys.path.insert(0, VERIF)

from vf.pool import HarnessError, Pool, WorkerDied, WorkerOpError  # noqa: E402

KNOWN_FILE = os.path.join(VERIF, "known_findings.json")
REPLAY_DIR = os.path.join(VERIF, "replays")
EVIDENCE_DIR = os.path.join(VERIF, "evidence")
# sensitivity runs against a scratch copy of the library (tools/run_seeded_par.sh) write their evidence and new replay
# files elsewhere, so that they cannot be mistaken for results about /repo
OUT_DIR = os.environ.get("VF_OUT_DIR")
NEW_REPLAY_DIR = os.path.join(OUT_DIR, "replays") if OUT_DIR else REPLAY_DIR
if OUT_DIR:
    EVIDENCE_DIR = os.path.join(OUT_DIR, "evidence")


def h8(obj):
    if not isinstance(obj, (bytes, str)):
        obj = json.dumps(obj, sort_keys=True)
    if isinstance(obj, str):
        obj = obj.encode("utf-8", "surrogatepass")
    return hashlib.sha1(obj).hexdigest()[:16]


class _BudgetExhausted(Exception):
    pass


class Failure:
    def __init__(self, sig, msg, detail=None):
        self.sig = sig
        self.msg = msg
        self.detail = detail

    def to_json(self):
        return {"sig": self.sig, "msg": self.msg, "detail": self.detail}


class Result:
    """Outcome of judging one case."""

    def __init__(self):
        self.failures = []
        self.classes = []
        self.nontrivial = False
        self.key = None          # distinctness key (hashed)
        self.sample = None       # small, readable rendering of the case
        self.reject = None       # generator-invalid (counted, not judged)
        self.evals = 1           # how many oracle evaluations this case stands for
        self.nt_keys = None      # optional: several distinct non-trivial keys at once

    def fail(self, sig, msg, detail=None):
        self.failures.append(Failure(sig, msg, detail))


class Known:
    def __init__(self, pid):
        self.open = []
        self.fixed = []
        if os.path.exists(KNOWN_FILE):
            d = json.load(open(KNOWN_FILE))
            self.open = [e for e in d.get("open", []) if e["property"] == pid]
            self.fixed = [e for e in d.get("fixed", []) if ("property=%s " % pid) in e]
        self.sigs = {}
        for e in self.open:
            for s in e.get("sigs", [e.get("sig")]):
                self.sigs[s] = e

    def match(self, sig):
        if sig in self.sigs:
            return self.sigs[sig]
        return None


class Ctx:
    def __init__(self, pid, tier, seed, shard=0, nshards=1, seconds=None):
        self.pid = pid
        self.tier = tier
        self.seed = seed
        self.shard = shard
        self.nshards = nshards
        self.pool = Pool()
        self.t0 = time.time()
        self.deadline = self.t0 + seconds if seconds else None
        base = "/dev/shm" if os.path.isdir("/dev/shm") else None
        self.scratch = tempfile.mkdtemp(prefix="vf-%s-" % pid, dir=base)
        from vf import pool as _pool
        _pool.DEFAULT_SCRATCH[0] = self.scratch
        self.cache = {}
        self.extra = {}

    def out_of_time(self):
        return self.deadline is not None and time.time() > self.deadline

    def close(self):
        self.pool.stop()
        shutil.rmtree(self.scratch, ignore_errors=True)


class Stats:
    def __init__(self):
        self.evaluations = 0
        self.cases = 0
        self.nt = set()
        self.classes = {}
        self.samples = []
        self.rejects = {}
        self.excluded_known = {}
        self.new = {}            # sig -> [size, case, failure json]
        self.budget_hit = False
        self.extra = {}
        self.nsamples_nt = 0

    def to_json(self):
        return {
            "evaluations": self.evaluations, "cases": self.cases, "nt": sorted(self.nt),
            "classes": self.classes, "samples": self.samples, "rejects": self.rejects,
            "excluded_known": self.excluded_known,
            "new": dict((k, v) for k, v in self.new.items()),
            "budget_hit": self.budget_hit, "extra": self.extra,
        }


def case_size(case):
    return len(json.dumps(case, sort_keys=True))


class Runner:
    def __init__(self, prop, ctx):
        self.prop = prop
        self.ctx = ctx
        self.stats = Stats()
        self.known = Known(prop.id)

    def handle(self, case, origin="gen"):
        """Judge one case; never raises for property failures."""
        st = self.stats
        t_case = time.time()
        try:
            res = self.prop.judge(case, self.ctx)
            dt = time.time() - t_case
            if dt > st.extra.get("slowest_case", [0.0])[0]:
                st.extra["slowest_case"] = [round(dt, 1), json.dumps(case, sort_keys=True)[:400]]
                if dt > 60 and os.environ.get("VF_SLOW_CASE_FILE"):
                    json.dump({"property": self.prop.id, "case": case}, open(os.environ["VF_SLOW_CASE_FILE"], "w"))
        except (WorkerDied, WorkerOpError) as e:
            # a reference interpreter could not process a generated input: generator fault
            st.rejects["worker:" + str(e)[:80]] = st.rejects.get("worker:" + str(e)[:80], 0) + 1
            return None
        return self.ingest(case, res, origin)

    def ingest(self, case, res, origin="gen"):
        """Book-keeping for one judged case."""
        st = self.stats
        st.cases += 1
        if res.reject:
            st.rejects[res.reject] = st.rejects.get(res.reject, 0) + 1
            return res
        st.evaluations += res.evals
        for c in res.classes:
            st.classes[c] = st.classes.get(c, 0) + 1
        if res.nt_keys is not None:
            for k in res.nt_keys:
                st.nt.add(h8(k))
        elif res.nontrivial:
            st.nt.add(h8(res.key if res.key is not None else case))
        is_nt = res.nontrivial or bool(res.nt_keys)
        if res.sample is not None and (len(st.samples) < 3 or (is_nt and self.stats.nsamples_nt < 3)):
            if len(st.samples) < 6:
                st.samples.append(res.sample)
                if is_nt:
                    st.nsamples_nt += 1
        for f in res.failures:
            if self.known.match(f.sig):
                st.excluded_known[f.sig] = st.excluded_known.get(f.sig, 0) + 1
            else:
                sz = case_size(case)
                cur = st.new.get(f.sig)
                if cur is None or sz < cur[0]:
                    st.new[f.sig] = [sz, case, f.to_json(), origin]
        return res

    def run_hypothesis(self, examples):
        prop, ctx = self.prop, self.ctx
        if examples <= 0:
            return
        strata = prop.strata(ctx) if hasattr(prop, "strata") else None
        if strata:
            # Stratified generation: Hypothesis clusters its top-level choices within a few dozen examples (it re-uses
            # and mutates earlier choice sequences), which can leave a (kind, version) stratum empty in a whole run.
            # Each stratum [label, strategy, weight] is therefore its own Hypothesis run, owned by one shard
            # (balanced assignment below), with its share of the run's whole example budget.
            if len(strata) < 2 * ctx.nshards:
                # few strata: split each into replicas (own seed each) so that every shard has work
                r = -(-2 * ctx.nshards // len(strata))
                strata = [["%s#%d" % (label, i), strat, w / float(r)] for label, strat, w in strata for i in range(r)]
                strata.sort(key=lambda t: t[0].split("#")[1])
            total_w = float(sum(w for _, _, w in strata))
            # strata -> shards: heaviest first onto the least loaded shard (deterministic), so shards finish together
            load = [0.0] * ctx.nshards
            owner = {}
            for j in sorted(range(len(strata)), key=lambda j: (-strata[j][2], j)):
                k = min(range(ctx.nshards), key=lambda q: (load[q], q))
                owner[j] = k
                load[k] += strata[j][2]
            order = [(j, st_) for j, st_ in enumerate(strata) if owner[j] == ctx.shard]
            # rotate with the seed, so that a time budget does not always cut the same strata
            if order:
                r = ctx.seed % len(order)
                order = order[r:] + order[:r]
            for j, (label, strat, w) in order:
                n = max(4, int(round(examples * ctx.nshards * w / total_w)))
                self._run_one(strat, n, "%s|%s" % (label, j))
                self.stats.extra.setdefault("strata_examples", {})
                lab = label.split("#")[0]
                self.stats.extra["strata_examples"][lab] = self.stats.extra["strata_examples"].get(lab, 0) + n
                if self.stats.budget_hit:
                    break
            return
        strat = prop.strategy(ctx)
        if strat is None:
            return
        self._run_one(strat, examples, "")

    def _run_one(self, strat, examples, label):
        import hypothesis
        from hypothesis import HealthCheck, Phase, given, settings
        prop, ctx = self.prop, self.ctx
        hseed = int(h8("%s|%d|%d|%s" % (prop.id, ctx.seed, ctx.shard, label)), 16) % (2 ** 63)

        @hypothesis.seed(hseed)
        @settings(max_examples=examples, deadline=None, database=None, derandomize=False,
                  report_multiple_bugs=False, phases=[Phase.generate],
                  suppress_health_check=list(HealthCheck))
        @given(strat)
        def test(case):
            if ctx.out_of_time():
                # stop generating: explored less, recorded as budget_hit (never a verdict)
                self.stats.budget_hit = True
                raise _BudgetExhausted()
            self.handle(case, "hypothesis")

        try:
            test()
        except _BudgetExhausted:
            pass

    def shrink(self, sig):
        """Minimise the smallest collected failing case of one signature (own ddmin, bounded)."""
        from vf.minimize import minimize
        best = self.stats.new[sig]
        prop, ctx = self.prop, self.ctx
        limit = time.time() + (25 if ctx.tier == "quick" else 120)

        def fails(case):
            try:
                res = prop.judge(case, ctx)
            except HarnessError:
                return False
            if res.reject:
                return False
            return any(f.sig == sig for f in res.failures)

        case, evals = minimize(best[1], fails, limit)
        if case is not best[1]:
            res = prop.judge(case, ctx)
            fs = [f for f in res.failures if f.sig == sig]
            if fs:          # (a flaky oracle would not reproduce: keep the original case then)
                best[0], best[1], best[2] = case_size(case), case, fs[0].to_json()
        best[3] = best[3] + "+minimised(%d evals)" % evals

    def run(self, examples):
        prop, ctx = self.prop, self.ctx
        if hasattr(prop, "setup"):
            prop.setup(ctx)
        # regression replays (shard 0)
        if ctx.shard == 0:
            rdir = os.path.join(REPLAY_DIR, "regress", prop.id)
            if os.path.isdir(rdir):
                for fn in sorted(os.listdir(rdir)):
                    if fn.endswith(".json"):
                        case = json.load(open(os.path.join(rdir, fn)))["case"]
                        self.handle(case, "regress:" + fn)
                        self.stats.extra["regress_replayed"] = self.stats.extra.get("regress_replayed", 0) + 1
        # fixed / enumerated cases, sharded round-robin
        if hasattr(prop, "fixed_cases"):
            for i, case in enumerate(prop.fixed_cases(ctx)):
                if i % ctx.nshards != ctx.shard:
                    continue
                if ctx.out_of_time():
                    self.stats.budget_hit = True
                    break
                self.handle(case, "fixed")
        if hasattr(prop, "bulk"):
            prop.bulk(ctx, self)
        self.run_hypothesis(examples)
        if hasattr(prop, "finish"):
            prop.finish(ctx, self)
        for k, v in ctx.extra.items():
            self.stats.extra[k] = v
        # minimise the smallest failing case of (a few) new signatures
        for sig in sorted(self.stats.new, key=lambda s: self.stats.new[s][0])[:4]:
            # (VF_NO_MINIMISE: sensitivity runs only want to know whether the check fires)
            if getattr(prop, "minimise", True) and not os.environ.get("VF_NO_MINIMISE"):
                self.shrink(sig)
        return self.stats


def load_prop(pid):
    mod = importlib.import_module("vf.props." + pid.lower())
    return mod.PROP


def shard_main(pid, tier, seed, shard, nshards, out):
    prop = load_prop(pid)
    b = prop.budgets[tier]
    ctx = Ctx(pid, tier, seed, shard, nshards, b.get("seconds"))
    try:
        r = Runner(prop, ctx)
        st = r.run(b["examples"])
        json.dump({"ok": True, "stats": st.to_json()}, open(out, "w"))
    except HarnessError as e:
        json.dump({"ok": False, "err": "HarnessError: %s" % e, "tb": traceback.format_exc()}, open(out, "w"))
    except BaseException as e:  # noqa
        json.dump({"ok": False, "err": "%s: %s" % (type(e).__name__, e), "tb": traceback.format_exc()},
                  open(out, "w"))
    finally:
        ctx.close()


def merge(shard_stats):
    m = Stats()
    for s in shard_stats:
        m.evaluations += s["evaluations"]
        m.cases += s["cases"]
        m.nt.update(s["nt"])
        for k, v in s["classes"].items():
            m.classes[k] = m.classes.get(k, 0) + v
        for x in s["samples"]:
            if len(m.samples) < 8:
                m.samples.append(x)
        for k, v in s["rejects"].items():
            m.rejects[k] = m.rejects.get(k, 0) + v
        for k, v in s["excluded_known"].items():
            m.excluded_known[k] = m.excluded_known.get(k, 0) + v
        for k, v in s["new"].items():
            if k not in m.new or v[0] < m.new[k][0]:
                m.new[k] = v
        m.budget_hit = m.budget_hit or s["budget_hit"]
        for k, v in s["extra"].items():
            if isinstance(v, (int, float)) and not isinstance(v, bool):
                m.extra[k] = m.extra.get(k, 0) + v
            elif isinstance(v, dict):
                d = m.extra.setdefault(k, {})
                for kk, vv in v.items():
                    if isinstance(vv, (int, float)):
                        d[kk] = d.get(kk, 0) + vv
                    else:
                        d[kk] = vv
            elif isinstance(v, list):
                m.extra.setdefault(k, [])
                m.extra[k].extend(v)
            else:
                m.extra[k] = v
    return m


def write_replay(pid, sig, entry):
    os.makedirs(NEW_REPLAY_DIR, exist_ok=True)
    path = os.path.join(NEW_REPLAY_DIR, "%s-%s.json" % (pid, h8(sig)))
    json.dump({"property": pid, "sig": sig, "case": entry[1], "failure": entry[2], "origin": entry[3]},
              open(path, "w"), indent=1, sort_keys=True)
    return path


def parent_main(pid, tier, seed):
    t0 = time.time()
    prop = load_prop(pid)
    b = prop.budgets[tier]
    nshards = b.get("shards", 8)
    tmp = tempfile.mkdtemp(prefix="vf-par-%s-" % pid, dir="/dev/shm" if os.path.isdir("/dev/shm") else None)
    procs = []
    env = dict(os.environ)
    env["PYTHONHASHSEED"] = "0"
    env["PYTHONDONTWRITEBYTECODE"] = "1"
    try:
        for i in range(nshards):
            out = os.path.join(tmp, "shard%d.json" % i)
            p = subprocess.Popen([sys.executable, "-m", "vf.run", "--shard", pid, tier, str(seed), str(i),
                                  str(nshards), out], cwd=VERIF, env=env,
                                 stdout=subprocess.DEVNULL, stderr=open(os.path.join(tmp, "err%d" % i), "w"),
                                 start_new_session=True)
            procs.append((p, out, i))
        shard_stats = []
        errors = []
        timed_out = []
        # a shard gets its generation budget, the same again for minimising, and a fixed allowance; then it is killed and
        # what it explored is not counted (inconclusive for that shard - never a violation, never a pass claimed for it)
        limit = t0 + 2 * b.get("seconds", 60) + (240 if tier == "quick" else 900)
        for p, out, i in procs:
            try:
                p.wait(timeout=max(1.0, limit - time.time()))
            except subprocess.TimeoutExpired:
                try:
                    os.killpg(p.pid, 9)
                except OSError:
                    p.kill()
                p.wait()
                timed_out.append(i)
                continue
            if not os.path.exists(out):
                errors.append("shard %d produced no result (rc=%s): %s" % (
                    i, p.returncode, open(os.path.join(tmp, "err%d" % i)).read()[-2000:]))
                continue
            d = json.load(open(out))
            if not d["ok"]:
                errors.append("shard %d: %s\n%s" % (i, d["err"], d.get("tb", "")))
            else:
                shard_stats.append(d["stats"])
        if errors:
            print("HARNESS-ERROR property=%s" % pid)
            for e in errors[:3]:
                print(e)
            return 2
        if timed_out and not shard_stats:
            print("HARNESS-ERROR property=%s every shard exceeded its time limit" % pid)
            return 2
        m = merge(shard_stats)
        if timed_out:
            m.extra["shards_timed_out(inconclusive, not counted)"] = timed_out
            print("INCONCLUSIVE shards %s exceeded the time limit and were stopped; their cases are not counted" % timed_out)
    finally:
        shutil.rmtree(tmp, ignore_errors=True)
        for p, _, _ in procs:
            try:
                os.killpg(p.pid, 9)          # whatever a shard left behind (workers of a killed shard)
            except OSError:
                pass

    known = Known(pid)
    ctx = Ctx(pid, tier, seed)
    rc = 0
    try:
        if hasattr(prop, "setup"):
            prop.setup(ctx)
        # known findings: replay the recorded input of each open entry
        for e in known.open:
            note = ""
            cpath = os.path.join(VERIF, e["replay"])
            try:
                case = json.load(open(cpath))["case"]
                res = prop.judge(case, ctx)
                sigs = set(f.sig for f in res.failures)
                if not (sigs & set(e.get("sigs", [e.get("sig")]))):
                    note = " (no longer reproduces)"
                for f in res.failures:
                    if not known.match(f.sig) and f.sig not in m.new:
                        m.new[f.sig] = [case_size(case), case, f.to_json(), "known-replay"]
            except (WorkerDied, WorkerOpError, OSError) as ex:
                note = " (replay not evaluated: %s)" % str(ex)[:80]
            print("KNOWN-FINDING: property=%s %s%s" % (pid, e["what"], note))
        violations = 0
        for sig in sorted(m.new):
            entry = m.new[sig]
            path = write_replay(pid, sig, entry)
            print("VIOLATION property=%s replay=%s" % (pid, path))
            print("  sig=%s :: %s" % (sig, str(entry[2].get("msg"))[:300]))
            violations += 1
            rc = 1
    finally:
        ctx.close()
    write_evidence(prop, tier, seed, m, time.time() - t0, violations)
    print("%s %s seed=%d: cases=%d evaluations=%d distinct_nontrivial=%d known_excluded=%d rejects=%d "
          "violations=%d wall=%.1fs%s" % (pid, tier, seed, m.cases, m.evaluations, len(m.nt),
                                         sum(m.excluded_known.values()), sum(m.rejects.values()),
                                         violations, time.time() - t0,
                                         " (budget hit)" if m.budget_hit else ""))
    return rc


def write_evidence(prop, tier, seed, m, wall, violations):
    os.makedirs(EVIDENCE_DIR, exist_ok=True)
    cov = {
        "evaluations": m.evaluations,
        "distinct_nontrivial": len(m.nt),
        "rule": prop.rule,
        "samples": m.samples,
        "cases": m.cases,
        "classes": dict(sorted(m.classes.items())),
        "generator_rejects": m.rejects,
        "excluded_known": m.excluded_known,
        "budget_hit": m.budget_hit,
    }
    cov.update(m.extra)
    if getattr(prop, "exhaustive", None):
        cov["exhaustive"] = bool(prop.exhaustive.get(tier))
    ev = {
        "property_id": prop.id, "tier": tier, "seed": seed, "level": "exploration",
        "coverage": cov, "assumptions": list(getattr(prop, "assumptions", [])),
        "wall_s": round(wall, 2), "violations": violations,
    }
    json.dump(ev, open(os.path.join(EVIDENCE_DIR, prop.id + ".json"), "w"), indent=1, sort_keys=True)


def replay_main(pid, path):
    prop = load_prop(pid)
    ctx = Ctx(pid, "quick", 0)
    try:
        if hasattr(prop, "setup"):
            prop.setup(ctx)
        d = json.load(open(path))
        res = prop.judge(d["case"], ctx)
        if res.reject:
            print("case rejected by generator-validity rule: %s" % res.reject)
            return 2
        if res.failures:
            for f in res.failures:
                print("  sig=%s :: %s" % (f.sig, f.msg))
            print("VIOLATION property=%s replay=%s" % (pid, path))
            return 1
        print("replay holds: property=%s %s" % (pid, path))
        return 0
    finally:
        ctx.close()


def main(argv):
    if argv and argv[0] == "--shard":
        _, pid, tier, seed, shard, nshards, out = argv
        shard_main(pid, tier, int(seed), int(shard), int(nshards), out)
        return 0
    if len(argv) >= 3 and argv[1] == "--replay":
        try:
            return replay_main(argv[0], argv[2])
        except HarnessError as e:
            print("HARNESS-ERROR %s" % e)
            return 2
    if len(argv) < 2:
        print(__doc__)
        return 2
    pid, tier = argv[0], argv[1]
    tier = os.environ.get("VERIF_TIER", tier) if tier not in ("quick", "thorough") else tier
    seed = int(os.environ.get("VERIF_SEED", "1") or 1)
    try:
        return parent_main(pid, tier, seed)
    except HarnessError as e:
        print("HARNESS-ERROR %s" % e)
        return 2
    except Exception:
        traceback.print_exc()
        print("HARNESS-ERROR unexpected")
        return 2


if __name__ == "__main__":
    sys.exit(main(sys.argv[1:]))
