"""Shared program-level differential: one case = one program for one bytecode version.

reference side  : the producing CPython compiles the program, marshals it and reports its own
                  marshal/dis/line/position/exception-table answers (refworker.op_compile*)
xdis side       : the same bytes decoded by xdis (portable unmarshaller) in-process on the driver
comparison      : grouped by *aspect*; each property's check keeps the aspects it owns.
"""
import os
import traceback

from vf import canon as cn
from vf import refworker as rw
from vf.pool import HarnessError

ASPECTS = ("tree", "tiling", "decode", "argval", "jump", "labels", "lines", "exc", "positions", "colines")

CORPUS_DIR = os.path.join(os.environ.get("VERIF_REPO", "/repo"), "test")


def vt(v):
    return tuple(int(x) for x in v.split(".")[:2])


def normname(n):
    return n.replace("+", "_")


class Cmp:
    def __init__(self, version):
        self.version = version
        self.v = vt(version)
        self.fails = {}      # aspect -> [(sig, msg)]
        self.classes = set()
        self.nt = {}         # aspect -> set of keys

    def fail(self, aspect, sig, msg):
        self.fails.setdefault(aspect, []).append(("%s|%s" % (self.version, sig), msg))


def width(v, has_arg):
    if v >= (3, 6):
        return 2
    return 3 if has_arg else 1


def compare_code(c, i, ref, x, co_code_hex=None):
    """ref / x: per-code-object dumps (refworker.ref_dis / x_instr_dump)."""
    v = c.v
    tag = "co%d" % i
    if "referr" in ref:
        return
    if "skipped" in ref:
        return
    # ---------------- labels / lines: linear routines, always available
    rl = ref.get("labels")
    if rl is None:
        rl = ref["dis_findlabels"]
    if "labels_err" in x:
        c.fail("labels", "findlabels-raised|%s" % x["labels_err"].split(":")[0], "%s findlabels raised %s" % (tag, x["labels_err"]))
    elif sorted(rl) != x["labels"]:
        missing = sorted(set(rl) - set(x["labels"]))
        extra = sorted(set(x["labels"]) - set(rl))
        c.fail("labels", "findlabels-set|%s" % label_class(v, ref, missing, extra),
               "%s findlabels: CPython %s, xdis %s (missing %s, extra %s)" % (
                   tag, rl[:12], x["labels"][:12], missing[:6], extra[:6]))
    if "linestarts_err" in x:
        c.fail("lines", "findlinestarts-raised|%s" % x["linestarts_err"].split(":")[0],
               "%s findlinestarts raised %s" % (tag, x["linestarts_err"]))
    elif ref["linestarts"] != x["linestarts"]:
        c.fail("lines", "findlinestarts|%s" % line_class(ref["linestarts"], x["linestarts"]),
               "%s findlinestarts: CPython %s..., xdis %s..." % (tag, first_diff(ref["linestarts"], x["linestarts"]),
                                                                 ""))
    # ---------------- exception-handler targets are jump targets too (3.11+): the set xdis derives must be CPython's
    if v >= (3, 11) and ref.get("exc") is not None:
        xe = x.get("exc") if x.get("exc") is not None else x.get("exc_parsed")
        if xe is not None:
            rt, xt = sorted(set(e[2] for e in ref["exc"])), sorted(set(e[2] for e in xe))
            if rt != xt:
                c.fail("jump", "handler-target-set", "%s exception-handler targets: CPython %s, xdis %s" % (tag, rt[:8], xt[:8]))
    # ---------------- exception table / positions (3.11+)
    if v >= (3, 11):
        if "exc_err" in x:
            c.fail("exc", "parse-raised", "%s parse_exception_table raised %s" % (tag, x["exc_err"]))
        elif "exc_parsed" in x and ref.get("exc") is not None and ref["exc"] != x["exc_parsed"]:
            c.fail("exc", "entries", "%s exception entries: CPython %s, xdis %s" % (tag, ref["exc"][:4], x["exc_parsed"][:4]))
        for key, what in (("positions", "co_positions"), ("positions_pp", "parse_positions")):
            if key + "_err" in x:
                c.fail("positions", "%s-raised|%s" % (what, x[key + "_err"].split(":")[0]),
                       "%s %s raised %s" % (tag, what, x[key + "_err"]))
            elif key in x and "positions" in ref:
                rp, xp = ref["positions"], x[key]
                if rp != xp:
                    k = 0
                    while k < min(len(rp), len(xp)) and rp[k] == xp[k]:
                        k += 1
                    c.fail("positions", "%s|%s" % (what, pos_class(rp, xp, k)),
                           "%s %s differ at code unit %d: CPython %s, xdis %s (lengths %d / %d)" % (
                               tag, what, k, rp[k] if k < len(rp) else None, xp[k] if k < len(xp) else None,
                               len(rp), len(xp)))
    if v >= (3, 10):
        if "co_lines_err" in x:
            c.fail("colines", "raised|" + x["co_lines_err"].split(":")[0], "%s co_lines raised %s" % (tag, x["co_lines_err"]))
        elif "co_lines" in x and "co_lines" in ref:
            ru, xu = per_unit(ref["co_lines"]), per_unit(x["co_lines"])
            if ru != xu:
                bad = sorted(o for o in set(ru) | set(xu) if ru.get(o, "absent") != xu.get(o, "absent"))
                o = bad[0]
                c.fail("colines", "per-unit", "%s co_lines differ at offset %d: CPython line %s, xdis line %s" % (
                    tag, o, ru.get(o, "absent"), xu.get(o, "absent")))
    if x.get("strcode_bad"):
        c.fail("decode", "co_code-as-str", "%s %s" % (tag, x["strcode_bad"]))
    if x.get("direct_bad"):
        c.fail("jump", "per-offset-entry-point", "%s %s" % (tag, x["direct_bad"]))
    if x.get("rename_bad"):
        c.fail("argval", "renamed-locals", "%s co.replace(co_varnames=renamed): %s" % (tag, x["rename_bad"]))
    for what in x.get("shift_bad") or []:
        if what.startswith("Bytecode(first_line"):
            for aspect in ("lines", "colines", "positions"):
                c.fail(aspect, "first_line-rebases-the-object", "%s %s: its own line tables answer differently afterwards" % (tag, what))
            continue
        aspect = {"findlinestarts": "lines", "co_lines": "colines", "co_positions": "positions"}.get(what, "lines")
        c.fail(aspect, "moved-code-object|%s" % what.split(":")[0], "%s the same code object with co_firstlineno + 1000 (replace()): %s is not "
               "the old answer with every line 1000 higher" % (tag, what))
    # ---------------- instruction stream
    if "skipped" in x:
        return
    if "instrs_err" in x:
        c.fail("tiling", "iteration-raised|%s|%s" % (x["instrs_err"].split(":")[0], frame_of(x.get("instrs_tb", ""))),
               "%s iterating instructions raised %s" % (tag, x["instrs_err"]))
        return
    xi = x["instrs"]
    ri = ref["instrs"]
    n = ref["codelen"]
    # tiling (intrinsic)
    pos = 0
    ok_tiling = True
    pending_ext = 0
    for ins in xi:
        if ins["o"] != pos:
            c.fail("tiling", "gap", "%s instruction at offset %d, expected %d" % (tag, ins["o"], pos))
            ok_tiling = False
            break
        w = width(v, ins["ha"]) if v < (3, 6) else 2
        exp_size = w * (pending_ext + 1)
        if ins["n"] == "EXTENDED_ARG":
            pending_ext += 1
        else:
            if ins["sz"] != exp_size:
                c.fail("tiling", "inst_size", "%s %s at %d: inst_size %s, expected %d" % (tag, ins["n"], pos, ins["sz"], exp_size))
            if ins["x"] != (pending_ext > 0):
                c.fail("tiling", "has_extended_arg", "%s %s at %d: has_extended_arg %s with %d prefixes" % (
                    tag, ins["n"], pos, ins["x"], pending_ext))
            pending_ext = 0
        pos += w
    if ok_tiling and pos != n:
        c.fail("tiling", "end", "%s stream ends at %d, len(co_code) = %d" % (tag, pos, n))
    for fmt in ("classic", "asm"):
        ret = x.get("instrs_ret_" + fmt)
        if ret is None:
            continue
        if "err" in ret:
            c.fail("argval", "disassemble_bytes-returned-list|raised", "%s Bytecode.disassemble_bytes(asm_format=%r) raised %s" % (tag, fmt, ret["err"]))
            continue
        # the listing code folds EXTENDED_ARG rows into the next row (asm) and moves SET_LINENO rows: align by sequence
        skip = ("EXTENDED_ARG", "SET_LINENO")
        seq_a = [a for a in xi if a["n"] not in skip]
        seq_b = [b for b in ret["instrs"] if b["n"] not in skip]
        if [a["op"] for a in seq_a] != [b["op"] for b in seq_b]:
            continue
        for a, b in zip(seq_a, seq_b):
            if fmt == "classic" and a["j"] != b["j"] and a["o"] == b["o"]:
                c.fail("jump", "disassemble_bytes-returned-list|is_jump_target", "%s at %d %s: iteration says is_jump_target=%s, the list returned by "
                       "disassemble_bytes() %s" % (tag, a["o"], a["n"], a["j"], b["j"]))
                break
            if a["a"] != b["a"] or a["v"] != b["v"]:
                c.fail("argval", "disassemble_bytes-returned-list|%s|%s" % (fmt, a["k"]), "%s at %d %s: iteration gives operand %s -> %s, the list returned by "
                       "disassemble_bytes(asm_format=%r) has %s -> %s" % (tag, a["o"], a["n"], a["a"], cn.summary(a["v"]), fmt, b["a"], cn.summary(b["v"])))
                break
    loi = x.get("instrs_loi")
    if loi is not None:
        if "err" in loi:
            c.fail("argval", "LineOffsetInfo-raised", "%s LineOffsetInfo(opc, code) raised %s" % (tag, loi["err"]))
        else:
            for a, b in zip(xi, loi["instrs"]):
                if (a["o"], a["op"], a["a"]) != (b["o"], b["op"], b["a"]):
                    c.fail("decode", "LineOffsetInfo.instructions", "%s at %d: Bytecode gives %s %s, LineOffsetInfo.instructions gives %s %s" % (
                        tag, a["o"], a["n"], a["a"], b["n"], b["a"]))
                    break
                if a["v"] != b["v"]:
                    c.fail("argval", "LineOffsetInfo.instructions|%s" % a["k"], "%s at %d %s %s: Bytecode resolves %s, LineOffsetInfo.instructions %s" % (
                        tag, a["o"], a["n"], a["a"], cn.summary(a["v"]), cn.summary(b["v"])))
                    break
    gi = x.get("instrs_gi")
    if gi is not None:
        if "err" in gi:
            c.fail("argval", "get_instructions-of-other-Bytecode-raised", "%s Bytecode(A).get_instructions(B) raised %s" % (tag, gi["err"]))
        else:
            for a, b in zip(xi, gi["instrs"]):
                if (a["o"], a["op"], a["a"]) != (b["o"], b["op"], b["a"]):
                    c.fail("decode", "get_instructions-of-other-Bytecode", "%s at %d: Bytecode(B) gives %s %s, Bytecode(A).get_instructions(B) gives %s %s" % (
                        tag, a["o"], a["n"], a["a"], b["n"], b["a"]))
                    break
                if a["l"] != b["l"]:
                    c.fail("lines", "get_instructions-of-other-Bytecode", "%s at %d %s: Bytecode(B) starts line %s there, Bytecode(A).get_instructions(B) %s" % (
                        tag, a["o"], a["n"], a["l"], b["l"]))
                    break
                if a["v"] != b["v"]:
                    c.fail("argval", "get_instructions-of-other-Bytecode|%s" % a["k"], "%s at %d %s %s: Bytecode(B) resolves %s, Bytecode(A).get_instructions(B) %s" % (
                        tag, a["o"], a["n"], a["a"], cn.summary(a["v"]), cn.summary(b["v"])))
                    break
    xmap = dict((ins["o"], ins) for ins in xi)
    roffs = set()
    has_ext = has_cache = False
    has_back = False
    exc_targets = set(e[2] for e in ref.get("exc", []) or [])
    for r in ri:
        o = r["o"]
        roffs.add(o)
        xin = xmap.get(o)
        if r["n"] == "EXTENDED_ARG":
            has_ext = True
        if r["n"] == "CACHE" or r.get("nc"):
            has_cache = True
        if xin is None:
            c.fail("decode", "missing-instruction", "%s CPython has %s at %d, xdis has nothing there" % (tag, r["n"], o))
            continue
        if r["op"] != xin["op"] or normname(r["n"]) != normname(xin["n"]):
            c.fail("decode", "opcode|%s" % r["n"], "%s at %d: CPython %s(%d), xdis %s(%d)" % (
                tag, o, r["n"], r["op"], xin["n"], xin["op"]))
            continue
        if r["a"] is not None and r["a"] != xin["a"]:
            c.fail("decode", "operand|%s" % r["n"], "%s at %d %s: CPython operand %s, xdis %s" % (
                tag, o, r["n"], r["a"], xin["a"]))
        if r["n"] == "CACHE":
            continue
        k = r["k"]
        if k in ("const", "name", "local", "free", "compare"):
            if r["v"] is not None and not (isinstance(r["v"], list) and r["v"] and r["v"][0] == "?"):
                if r["v"] != xin["v"] or k != xin["k"]:
                    c.fail("argval", "%s|%s" % (k, r["n"]), "%s at %d %s %s: CPython resolves %s (%s), xdis %s (%s)" % (
                        tag, o, r["n"], r["a"], cn.summary(r["v"]), k, cn.summary(xin["v"]), xin["k"]))
                c.nt.setdefault("argval", set()).add((k, r["n"], "big" if (r["a"] or 0) >= 256 else "small"))
        if k in ("jrel", "jabs"):
            if r["v"] != xin["v"]:
                c.fail("jump", "target|%s" % r["n"], "%s at %d %s %s: CPython jumps to %s, xdis says %s" % (
                    tag, o, r["n"], r["a"], r["v"], xin["v"]))
            if isinstance(r["v"], int) and r["v"] <= o:
                has_back = True
        if r["j"] != xin["j"]:
            c.fail("jump", "is_jump_target|%s" % ("handler" if o in exc_targets else "label"),
                   "%s at %d %s: CPython is_jump_target=%s, xdis %s" % (tag, o, r["n"], r["j"], xin["j"]))
        if r["l"] != xin["l"]:
            c.fail("lines", "starts_line", "%s at %d %s: CPython starts_line=%s, xdis %s" % (tag, o, r["n"], r["l"], xin["l"]))
        if v >= (3, 13) and r.get("nc"):
            for q in range(r["nc"]):
                ci = xmap.get(o + 2 + 2 * q)
                if ci is None or ci["n"] != "CACHE":
                    c.fail("decode", "cache-units|%s" % r["n"], "%s %s at %d has %d cache units; xdis shows %s at %d" % (
                        tag, r["n"], o, r["nc"], ci["n"] if ci else None, o + 2 + 2 * q))
                    break
    for o, xin in xmap.items():
        if o not in roffs and xin["n"] != "CACHE":
            c.fail("decode", "extra-instruction", "%s xdis has %s at %d where CPython has no instruction" % (tag, xin["n"], o))
            break
    # every jump target is an instruction start or len(co_code)
    starts = set(xmap) | {n}
    for xin in xi:
        if xin["k"] in ("jrel", "jabs") and isinstance(xin["v"], int) and xin["v"] not in starts:
            if any(r["o"] == xin["o"] and r["v"] == xin["v"] for r in ri):
                continue    # CPython computes the same target: the code object itself is odd
            c.fail("jump", "target-not-instruction-start", "%s %s at %d -> %d is not an instruction start" % (
                tag, xin["n"], xin["o"], xin["v"]))
    if has_ext:
        c.classes.add("EXTENDED_ARG")
    if has_cache:
        c.classes.add("CACHE")
    if has_back:
        c.classes.add("backward-jump")
    if n > 255:
        c.classes.add("code>255")
    if exc_targets:
        c.classes.add("exception-table")
    c.codeinfo.append({"ext": has_ext, "cache": has_cache, "back": has_back, "len": n, "exc": bool(exc_targets),
                       "labels": len(rl)})


def label_class(v, ref, missing, extra):
    back = any(isinstance(r.get("v"), int) and r["k"] in ("jrel", "jabs") and r["v"] <= r["o"] for r in ref["instrs"])
    big = any(t >= 256 for t in missing + extra)
    return "%s%s" % ("backward" if back else "forward", "|>=256" if (big and v < (3, 6)) else "")


def line_class(a, b):
    if len(a) != len(b):
        return "count"
    for (o1, l1), (o2, l2) in zip(a, b):
        if o1 != o2:
            return "offset"
        if l1 != l2:
            return "line-delta>=128" if abs(l1 - l2) in (256, 512) else "line"
    return "?"


def first_diff(a, b):
    for k in range(max(len(a), len(b))):
        ea = a[k] if k < len(a) else None
        eb = b[k] if k < len(b) else None
        if ea != eb:
            return "entry %d: CPython %s xdis %s" % (k, ea, eb)
    return "same"


def pos_class(rp, xp, k):
    if k >= len(rp) or k >= len(xp):
        return "length"
    a, b = rp[k], xp[k]
    for j, nm in enumerate(("line", "endline", "col", "endcol")):
        if a[j] != b[j]:
            return nm
    return "?"


def per_unit(co_lines):
    d = {}
    for s, e, line in co_lines:
        for o in range(s, e, 2):
            d[o] = line
    return d


def frame_of(tb_text):
    last = "?"
    for line in tb_text.splitlines():
        line = line.strip()
        if line.startswith("File ") and "/xdis/" in line:
            try:
                last = "%s:%s" % (line.split("/xdis/")[1].split('"')[0], line.rsplit(" in ", 1)[1])
            except Exception:
                pass
    return last


def internal_consistency(c, i, x):
    """Oracles that need no reference interpreter (corpus files of versions nobody can run any more):
    tiling, the two operand decoders inside xdis agree, jump targets are instruction starts and are labels."""
    v = c.v
    tag = "co%d" % i
    if "skipped" in x:
        return
    if "instrs_err" in x:
        c.fail("tiling", "iteration-raised|%s|%s" % (x["instrs_err"].split(":")[0], frame_of(x.get("instrs_tb", ""))),
               "%s iterating instructions raised %s" % (tag, x["instrs_err"]))
        return
    xi = x["instrs"]
    n = x["codelen"]
    pos = 0
    for ins in xi:
        if ins["o"] != pos:
            c.fail("tiling", "gap", "%s instruction at offset %d, expected %d" % (tag, ins["o"], pos))
            return
        pos += 2 if v >= (3, 6) else (3 if ins["ha"] else 1)
    if pos != n:
        c.fail("tiling", "end", "%s stream ends at %d, len(co_code) = %d" % (tag, pos, n))
    if "unpacked_err" in x:
        c.fail("decode", "unpack-raised", "%s operand unpacker raised %s" % (tag, x["unpacked_err"]))
    elif "unpacked" in x:
        u = x["unpacked"]
        if [a[0] for a in u] != [b["o"] for b in xi]:
            c.fail("decode", "two-decoders|offsets", "%s the instruction iterator and the operand unpacker tile differently" % tag)
        else:
            for (o, op, a), ins in zip(u, xi):
                if op != ins["op"] or (a is not None and ins["a"] is not None and a != ins["a"]):
                    c.fail("decode", "two-decoders|operand", "%s at %d: instruction iterator says %s %s, operand unpacker says opcode %d operand %s" % (
                        tag, o, ins["n"], ins["a"], op, a))
                    break
    ret = x.get("instrs_ret_classic")
    if isinstance(ret, dict) and "instrs" in ret:
        mine = dict((a["o"], a) for a in xi)
        for b in ret["instrs"]:
            a = mine.get(b["o"])
            if a is not None and a["op"] == b["op"] and a["j"] != b["j"]:
                c.fail("jump", "disassemble_bytes-returned-list|is_jump_target", "%s at %d %s: iteration says is_jump_target=%s, the list returned by "
                       "disassemble_bytes() %s" % (tag, a["o"], a["n"], a["j"], b["j"]))
                break
    starts = set(b["o"] for b in xi) | {n}
    labels = set(x.get("labels", []))
    targets = set()
    for ins in xi:
        if ins["k"] in ("jrel", "jabs") and isinstance(ins["v"], int):
            targets.add(ins["v"])
            if ins["v"] not in starts:
                c.fail("jump", "target-not-instruction-start", "%s %s at %d -> %d is not an instruction start" % (tag, ins["n"], ins["o"], ins["v"]))
                break
    for ins in xi:
        if ins["n"].startswith("<"):
            c.fail("decode", "undefined-opcode-in-compiled-file", "%s at %d: opcode %d has no name in the %s table, yet a compiler of that "
                   "version emitted it" % (tag, ins["o"], ins["op"], getattr(c, "version", v)))
            break
    if "labels" in x and targets != labels:
        c.fail("labels", "labels-vs-jump-operands", "%s findlabels %s but jump operands point to %s" % (
            tag, sorted(labels)[:10], sorted(targets)[:10]))
    exc_t = set(e[2] for e in (x.get("exc") or []))
    for ins in xi:
        if ins["j"] != (ins["o"] in labels or ins["o"] in exc_t):
            c.fail("jump", "is_jump_target-vs-labels", "%s at %d %s: is_jump_target=%s but offset %s the label set" % (
                tag, ins["o"], ins["n"], ins["j"], "is in" if ins["o"] in labels else "is not in"))
            break


def compare_program(version, ref, x):
    """ref: worker compile result; x: rw.x_dump_file result. -> Cmp"""
    c = Cmp(version)
    c.codeinfo = []
    d = cn.diff(ref["tree"], x["tree"])
    if d:
        c.fail("tree", "field|%s|exp=%s|got=%s" % (cn.field_of(d[0]) or "const", kshort(d[1]), kshort(d[2])),
               "code tree differs at %s: CPython %s, xdis %s" % d)
    if x.get("consumed") is not None and x["consumed"] != x.get("payload_len"):
        c.fail("tree", "consumed", "payload is %s bytes, load_code consumed %s" % (x.get("payload_len"), x["consumed"]))
    if "dis" in ref and "dis" in x:
        if len(ref["dis"]) != len(x["dis"]):
            if not d:
                c.fail("tree", "code-object-count", "CPython has %d code objects, xdis %d" % (len(ref["dis"]), len(x["dis"])))
        else:
            for i, (r, xx) in enumerate(zip(ref["dis"], x["dis"])):
                compare_code(c, i, r, xx)
    return c


def kshort(summary):
    s = summary.lstrip("[").lstrip('"')
    return s[:1] if s else "?"


def xdis_dump(data, max_code, route="portable", dup_lines=False):
    """In-process xdis decoding; an exception of the loader itself is reported, not raised."""
    try:
        return rw.x_dump_file(data=data, want_dis=True, max_code=max_code, route=route, dup_lines=dup_lines), None
    except Exception as e:
        tb = traceback.format_exc()
        return None, (type(e).__name__, str(e), frame_of(tb), tb[-1500:])


def stdlib_files(ctx, version, max_size):
    key = ("stdlib", version)
    if key not in ctx.cache:
        r = ctx.pool.ref(version).call("stdlib_files")
        ctx.cache[key] = r["files"]
    return [p for p, sz in ctx.cache[key] if 0 < sz <= max_size]


def corpus_files():
    out = []
    for d in sorted(os.listdir(CORPUS_DIR)):
        if d.startswith("bytecode_"):
            dd = os.path.join(CORPUS_DIR, d)
            for f in sorted(os.listdir(dd)):
                if f.endswith((".pyc", ".pyo")):
                    out.append(os.path.join(d, f))
    return out
