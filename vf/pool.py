"""Interpreter discovery and persistent worker processes."""
import json
import os
import subprocess
import sys

HERE = os.path.dirname(os.path.abspath(__file__))
PYENV = os.environ.get("VERIF_PYENV", "/root/.pyenv/versions")
REPO = os.environ.get("VERIF_REPO", "/repo")

ALL_VERSIONS = ["2.7", "3.6", "3.7", "3.8", "3.9", "3.10", "3.11", "3.12", "3.13"]
HOSTS = ["3.8", "3.9", "3.10", "3.11", "3.12", "3.13"]


# workers create their scratch directories inside this one (set by the driver's Ctx), so that
# removing it cleans up after workers that were killed
DEFAULT_SCRATCH = [None]


class HarnessError(Exception):
    """Infrastructure problem: never a property violation (exit 2)."""


def vt(v):
    return tuple(int(x) for x in v.split("."))


def discover():
    found = {}
    if os.path.isdir(PYENV):
        for d in sorted(os.listdir(PYENV)):
            parts = d.split(".")
            if len(parts) >= 2 and parts[0].isdigit() and parts[1].isdigit():
                exe = os.path.join(PYENV, d, "bin", "python")
                if os.path.exists(exe):
                    found[parts[0] + "." + parts[1]] = exe
    return found


_INTERPRETERS = None


def interpreters():
    global _INTERPRETERS
    if _INTERPRETERS is None:
        _INTERPRETERS = discover()
    return _INTERPRETERS


CALL_TIMEOUT = int(os.environ.get("VF_CALL_TIMEOUT", "420"))


class WorkerDied(Exception):
    pass


class Worker:
    def __init__(self, version, role="ref", extra=None):
        self.version = version
        self.role = role
        self.extra = extra
        self.proc = None
        self.calls = 0
        self.restarts = 0

    def start(self):
        exe = interpreters().get(self.version)
        if exe is None:
            raise HarnessError("no interpreter for %s under %s" % (self.version, PYENV))
        env = dict(os.environ)
        env["PYTHONHASHSEED"] = "0"
        env["PYTHONDONTWRITEBYTECODE"] = "1"
        env["VERIF_REPO"] = REPO
        if DEFAULT_SCRATCH[0]:
            env["VF_SCRATCH"] = DEFAULT_SCRATCH[0]
        env["PYTHONIOENCODING"] = "utf-8"
        env.pop("PYTHONPATH", None)
        if self.role == "host":
            env["PYTHONPATH"] = REPO
        env["VF_ROLE"] = self.role
        if self.extra == "optimize":
            env["PYTHONOPTIMIZE"] = "1"         # the library under test running under `python -O` (asserts stripped)
        elif self.extra and self.extra != "zygote":
            env["VF_WORKER_EXTRA"] = self.extra
        self.proc = subprocess.Popen(
            [exe, "-u", os.path.join(HERE, "refworker.py")],
            stdin=subprocess.PIPE, stdout=subprocess.PIPE, stderr=subprocess.DEVNULL,
            env=env, cwd="/", universal_newlines=True, bufsize=1)

    def call(self, op, **kw):
        if self.proc is None or self.proc.poll() is not None:
            self.start()
        kw["op"] = op
        self.calls += 1
        timed_out = False
        try:
            self.proc.stdin.write(json.dumps(kw) + "\n")
            self.proc.stdin.flush()
            # a worker that neither answers nor dies (a hang inside the code under test, or inside an interpreter)
            # must not hang the check: after CALL_TIMEOUT seconds without the first byte of an answer it is killed
            import select
            ready, _, _ = select.select([self.proc.stdout], [], [], CALL_TIMEOUT)
            if not ready:
                timed_out = True
                self.proc.kill()
                self.proc.wait()
                line = ""
            else:
                line = self.proc.stdout.readline()
        except (BrokenPipeError, OSError):
            line = ""
        if timed_out:
            self.restarts += 1
            self.proc = None
            raise WorkerDied("%s worker (%s) gave no answer within %ds on op %s (killed)" % (self.version, self.role, CALL_TIMEOUT, op))
        if not line:
            rc = self.proc.poll()
            self.restarts += 1
            self.proc = None
            raise WorkerDied("%s worker (%s) died (rc=%r) on op %s" % (self.version, self.role, rc, op))
        resp = json.loads(line)
        self.last_out = resp.get("out")
        if not resp["ok"]:
            raise WorkerOpError(resp["err"], resp.get("tb", ""))
        return resp["r"]

    def call_raw(self, op, **kw):
        """Like call, but returns the whole response incl. stray stdout ('out')."""
        r = None
        try:
            r = self.call(op, **kw)
            return {"ok": True, "r": r, "out": self.last_out}
        except WorkerOpError as e:
            return {"ok": False, "err": e.args[0], "tb": e.args[1], "out": self.last_out}

    def stop(self):
        if self.proc is not None and self.proc.poll() is None:
            try:
                self.proc.stdin.write('{"op":"quit"}\n')
                self.proc.stdin.flush()
                self.proc.wait(timeout=3)
            except Exception:
                self.proc.kill()
        self.proc = None


class WorkerOpError(Exception):
    pass


class Pool:
    def __init__(self):
        self.workers = {}

    def get(self, version, role="ref", extra=None):
        key = (version, role, extra)
        w = self.workers.get(key)
        if w is None:
            w = Worker(version, role, extra)
            self.workers[key] = w
        return w

    def ref(self, version):
        return self.get(version, "ref")

    def host(self, version, extra=None):
        if version not in HOSTS:
            raise HarnessError("%s cannot host xdis" % version)
        return self.get(version, "host", extra)

    def stop(self):
        for w in self.workers.values():
            w.stop()
        self.workers = {}
