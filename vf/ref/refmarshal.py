"""Independent marshal *encoder*, written from the documented format (Python/marshal.c).

Input: canonical trees (see refworker.canon) possibly containing sharing nodes
["=", id, subtree] and code nodes ["C", {field: canon}].  Every choice the format leaves to
the writer is taken from a decision stream (`Choices`), so Hypothesis can drive and shrink it.

Nothing here imports xdis.
"""
import binascii
import struct


def unhx(s):
    return binascii.unhexlify(s)


class Choices:
    """Data-provider over a list of small ints; exhausted -> 0 (the canonical encoding)."""

    def __init__(self, data=()):
        self.data = list(data)
        self.i = 0

    def pick(self, n):
        if n <= 1:
            return 0
        if self.i < len(self.data):
            v = self.data[self.i] % n
            self.i += 1
            return v
        return 0


def vtuple(v):
    if isinstance(v, str):
        return tuple(int(x) for x in v.split(".")[:2])
    return tuple(v)


def marshal_version_for(v):
    v = vtuple(v)
    if v >= (3, 4):
        return 4
    if v >= (2, 5):
        return 2
    if v >= (2, 4):
        return 1
    return 0


class Encoder:
    def __init__(self, version, choices=None, allow_refs=None, extra_flagrefs=True, layout_version=None):
        self.v = vtuple(version)
        # the code-object field layout may be that of another version (the interpreter that will judge the stream)
        # while every encoding choice is gated by `version`, so both streams differ in the header ints only
        self.lv = vtuple(layout_version) if layout_version else self.v
        self.ch = choices or Choices()
        self.py2 = self.v < (3, 0)
        self.refs_ok = (self.v >= (3, 4)) if allow_refs is None else allow_refs
        self.extra_flagrefs = extra_flagrefs
        self.out = bytearray()
        self.nrefs = 0               # slots taken in the 3.4+ reference table
        self.shared = {}             # share id -> slot index
        self.strtab = {}             # py2 interned strings: bytes -> index of first 't'
        self.nstr = 0
        self.tcount = {}             # py2: how many 't' slots each byte string has taken
        # py2 string policy once the choice stream is exhausted (peeked, not consumed): 0 = plain 's' / 'R' when known,
        # 1 = intern every first occurrence, 2 = intern the first two occurrences (a second 't' takes a second slot)
        self.strmode = (self.ch.data[0] // 4) % 3 if getattr(self.ch, "data", None) else 0
        self.features = set()

    # -- primitives
    def w(self, b):
        self.out += b

    def w_long(self, n):
        self.out += struct.pack("<i", n)

    def w_short(self, n):
        self.out += struct.pack("<h", n)

    def code(self, c, flag=False):
        self.out.append(ord(c) | (0x80 if flag else 0))

    def take_slot(self):
        i = self.nrefs
        self.nrefs += 1
        return i

    # -- objects
    def obj(self, t):
        k = t[0]
        if k == "=":
            sid, sub = t[1], t[2]
            if self.refs_ok and sub[0] not in ("N", "b", "E", "X"):
                if sid in self.shared:
                    if self.ch.pick(8) != 7:          # nearly always use the back-reference
                        self.code("r")
                        self.w_long(self.shared[sid])
                        self.features.add("backref:" + sub[0])
                        return
                    return self.obj(sub)              # a writer may also repeat the object
                # first occurrence: FLAG_REF it so later places can refer to it
                return self.plain(sub, flag=True, sid=sid)
            return self.obj(sub)
        flag = False
        if self.refs_ok and self.extra_flagrefs and k not in ("N", "b", "E", "X"):
            flag = self.ch.pick(4) == 1               # FLAG_REF on an object nobody refers to
        return self.plain(t, flag)

    def plain(self, t, flag=False, sid=None):
        k = t[0]
        if flag:
            self.features.add("flagref:" + k)

        def reserve():
            # FLAG_REF objects take their slot *before* their children are read
            if flag:
                i = self.take_slot()
                if sid is not None:
                    self.shared[sid] = i

        # singletons: a reader accepts FLAG_REF on their type byte too, but gives them NO slot in the reference table
        sflag = bool(self.refs_ok and self.extra_flagrefs and k in ("N", "b", "E", "X") and self.ch.pick(2) == 1)
        if sflag:
            self.features.add("flagref-on-singleton")
        if k == "N":
            self.code("N", sflag)
        elif k == "b":
            self.code("T" if t[1] else "F", sflag)
        elif k == "E":
            self.code(".", sflag)
        elif k == "X":
            self.code("S", sflag)
        elif k == "i":
            self.w_int(int(t[1], 0), flag)
            reserve()
        elif k == "f":
            f = struct.unpack(">d", unhx(t[1]))[0]
            self.w_float(f, flag)
            reserve()
        elif k == "c":
            re = struct.unpack(">d", unhx(t[1]))[0]
            im = struct.unpack(">d", unhx(t[2]))[0]
            self.w_complex(re, im, flag)
            reserve()
        elif k == "y":
            self.w_bytes(unhx(t[1]), flag)
            reserve()
        elif k == "t":
            self.w_text(unhx(t[1]), flag)
            reserve()
        elif k == "T":
            items = t[1]
            n = len(items)
            if self.v >= (3, 4) and n < 256 and self.ch.pick(3) != 1:
                self.code(")", flag)
                self.out.append(n)
            else:
                self.code("(", flag)
                self.w_long(n)
                if flag:
                    self.features.add("flagref:T(")
            reserve()
            if n >= 256:
                self.features.add("container>=256")
            for x in items:
                self.obj(x)
        elif k == "L":
            self.code("[", flag)
            self.w_long(len(t[1]))
            reserve()
            if len(t[1]) >= 256:
                self.features.add("container>=256")
            for x in t[1]:
                self.obj(x)
        elif k in ("S", "Z"):
            self.code("<" if k == "S" else ">", flag)
            self.w_long(len(t[1]))
            reserve()
            if len(t[1]) >= 256:
                self.features.add("container>=256")
            for x in t[1]:
                self.obj(x)
        elif k == "D":
            self.code("{", flag)
            reserve()
            self.features.add("dict")
            for a, b in t[1]:
                if a[0] == "N" or b[0] == "N":
                    self.features.add("dict-none")
                self.obj(a)
                self.obj(b)
            self.code("0")
        elif k == "C":
            self.w_code(t[1], flag, reserve)
        else:
            raise ValueError("cannot encode kind %r" % (k,))

    def w_int(self, n, flag):
        fits32 = -2 ** 31 <= n < 2 ** 31
        fits64 = -2 ** 63 <= n < 2 ** 63
        forms = []
        if fits32:
            forms.append("i")
        if fits64 and self.v < (3, 4):
            forms.append("I")
        forms.append("l")
        f = forms[self.ch.pick(len(forms))]
        if f == "i":
            self.code("i", flag)
            self.w_long(n)
        elif f == "I":
            self.features.add("int64")
            self.code("I", flag)
            self.out += struct.pack("<q", n)
        else:
            if fits32:
                self.features.add("digits-for-small-int")
            else:
                self.features.add("bigint")
            self.code("l", flag)
            digits = []
            m = abs(n)
            while m:
                digits.append(m & 0x7FFF)
                m >>= 15
            self.w_long(len(digits) if n >= 0 else -len(digits))
            for d in digits:
                self.out += struct.pack("<H", d)

    def w_float(self, f, flag):
        txt = repr(f).encode("ascii")
        text_ok = f == f and f not in (float("inf"), float("-inf")) and len(txt) < 256
        if text_ok and (self.v < (2, 5) or self.ch.pick(3) == 1):
            if float(txt) == f and (f != 0 or not str(f).startswith("-")):
                self.features.add("textfloat")
                if self.ch.pick(4) == 1 and abs(f) < 1e60:
                    # the length byte is unsigned: a legal text of 128..255 bytes (old writers used "%.17g"; any
                    # decimal text of the value is acceptable to the reader)
                    long_txt = ("%.150f" % f).encode("ascii")
                    if 127 < len(long_txt) < 256 and float(long_txt) == f:
                        txt = long_txt
                        self.features.add("textfloat>=128")
                self.code("f", flag)
                self.out.append(len(txt))
                self.w(txt)
                return
        if self.v < (2, 5):
            raise Unencodable("binary float before 2.5")
        self.code("g", flag)
        self.out += struct.pack("<d", f)

    def w_complex(self, re, im, flag):
        def ok(f):
            return f == f and f not in (float("inf"), float("-inf")) and not (f == 0 and str(f).startswith("-"))
        if ok(re) and ok(im) and (self.v < (2, 5) or self.ch.pick(3) == 1):
            self.features.add("textcomplex")
            self.code("x", flag)
            for f in (re, im):
                txt = repr(f).encode("ascii")
                self.out.append(len(txt))
                self.w(txt)
            return
        if self.v < (2, 5):
            raise Unencodable("binary complex before 2.5")
        self.code("y", flag)
        self.out += struct.pack("<dd", re, im)

    def w_bytes(self, b, flag):
        """py3 bytes / py2 str"""
        if self.py2 and self.v >= (2, 4):
            forms = ["s", "t"] if self.strmode == 0 else ["t", "s"]
            if b in self.strtab:
                forms = ["t", "R", "s"] if (self.strmode == 2 and self.tcount.get(b, 0) < 2) else ["R", "s", "t"]
            f = forms[self.ch.pick(len(forms))]
            if f == "R":
                self.features.add("py2-stringref")
                self.code("R")
                self.w_long(self.strtab[b])
                return
            if f == "t":
                # every 't' takes the next slot of the interned-string table
                self.features.add("py2-interned")
                # (a repeated 't' of the same bytes takes a new slot too; a later 'R' may name any of them: use the newest)
                if b in self.strtab:
                    self.features.add("py2-interned-twice")
                self.strtab[b] = self.nstr
                self.tcount[b] = self.tcount.get(b, 0) + 1
                self.nstr += 1
                self.code("t")
                self.w_long(len(b))
                self.w(b)
                return
        self.code("s", flag)
        self.w_long(len(b))
        self.w(b)

    def w_text(self, raw, flag):
        """raw = UTF-8 (surrogatepass) bytes of the text"""
        ascii_ = all(c < 128 for c in bytearray(raw))
        if not ascii_:
            self.features.add("nonascii-text")
        forms = ["u"]
        if self.v >= (3, 4):
            forms.append("t")
            if ascii_:
                forms += ["a", "A"]
                if len(raw) < 256:
                    forms += ["z", "Z"]
        # default (pick 0) mimics CPython's writer: short ascii when possible
        order = forms
        if self.v >= (3, 4) and ascii_:
            order = (["z", "Z"] if len(raw) < 256 else []) + ["a", "A", "u", "t"]
        f = order[self.ch.pick(len(order))]
        self.features.add("text:" + f)
        self.code(f, flag)
        if f in ("z", "Z"):
            self.out.append(len(raw))
        else:
            self.w_long(len(raw))
        self.w(raw)

    # -- code objects
    def w_code(self, d, flag, reserve):
        v = self.lv
        self.code("c", flag)
        reserve()

        def num(name, default=0):
            return int(d[name][1]) if name in d else default

        wl = self.w_long if v >= (2, 3) else self.w_short
        if v >= (1, 3):
            wl(num("co_argcount"))
        if v >= (3, 8):
            self.w_long(num("co_posonlyargcount"))
        if v >= (3, 0):
            self.w_long(num("co_kwonlyargcount"))
        if v < (3, 11) and v >= (1, 3):
            wl(num("co_nlocals"))
        if v >= (1, 5):
            wl(num("co_stacksize"))
        if v >= (1, 3):
            wl(num("co_flags"))
        self.obj(d["co_code"])
        self.obj(d["co_consts"])
        self.obj(d["co_names"])
        if v >= (3, 11):
            self.obj(d["co_localsplusnames"])
            self.obj(d["co_localspluskinds"])
            self.obj(d["co_filename"])
            self.obj(d["co_name"])
            self.obj(d["co_qualname"])
            self.w_long(num("co_firstlineno"))
            self.obj(d["co_linetable"])
            self.obj(d["co_exceptiontable"])
            return
        if v >= (1, 3):
            self.obj(d["co_varnames"])
        if v >= (2, 1):
            self.obj(d["co_freevars"])
            self.obj(d["co_cellvars"])
        self.obj(d["co_filename"])
        self.obj(d["co_name"])
        if v >= (1, 5):
            wl(num("co_firstlineno"))
            self.obj(d["co_linetable"])


class Unencodable(Exception):
    pass


def names_tuple(names, py2):
    k = "y" if py2 else "t"
    return ["T", [[k, binascii.hexlify(n.encode("utf-8")).decode()] for n in names]]


def hexs(b):
    return binascii.hexlify(b).decode()


def template_code_tree(version, consts, name="<module>", filename="<gen>", code=None, names=(),
                       varnames=(), firstlineno=1, linetable=b"", flags=64, stacksize=1,
                       extra=None):
    """Canonical code tree for `version` whose co_consts is the canonical tuple `consts`."""
    v = vtuple(version)
    py2 = v < (3, 0)
    sk = "y" if py2 else "t"
    if code is None:
        if v >= (3, 6):
            code = bytes([100, 0, 83, 0])           # LOAD_CONST 0; RETURN_VALUE
        else:
            code = bytes([100, 0, 0, 83])
        if v >= (3, 11):
            code = bytes([151, 0, 100, 0, 83, 0])   # RESUME 0; LOAD_CONST 0; RETURN_VALUE
        if v >= (3, 13):
            code = bytes([149, 0, 83, 0, 36, 0])    # RESUME 0; LOAD_CONST 0; RETURN_VALUE
    d = {
        "co_argcount": ["i", "0"], "co_nlocals": ["i", str(len(varnames))],
        "co_stacksize": ["i", str(stacksize)],
        "co_flags": ["i", str(flags)], "co_code": ["y", hexs(code)], "co_consts": consts,
        "co_names": names_tuple(names, py2), "co_varnames": names_tuple(varnames, py2),
        "co_freevars": ["T", []], "co_cellvars": ["T", []],
        "co_filename": [sk, hexs(filename.encode())], "co_name": [sk, hexs(name.encode())],
        "co_firstlineno": ["i", str(firstlineno)], "co_linetable": ["y", hexs(linetable)],
    }
    if v >= (3, 0):
        d["co_kwonlyargcount"] = ["i", "0"]
    if v >= (3, 8):
        d["co_posonlyargcount"] = ["i", "0"]
    if v >= (3, 11):
        d["co_qualname"] = [sk, hexs(name.encode())]
        d["co_exceptiontable"] = ["y", ""]
        d["co_localsplusnames"] = names_tuple(varnames, py2)
        d["co_localspluskinds"] = ["y", hexs(bytes([0x20] * len(varnames)))]
    if extra:
        d.update(extra)
    return ["C", d]


def encode(tree, version, choices=(), **kw):
    e = Encoder(version, Choices(choices), **kw)
    e.obj(tree)
    return bytes(e.out), sorted(e.features)


def strip_sharing(t):
    """The plain canonical tree an encoding stands for (sharing expanded)."""
    k = t[0]
    if k == "i":
        return ["i", t[1]]
    if k == "=":
        return strip_sharing(t[2])
    if k in ("T", "L"):
        return [k, [strip_sharing(x) for x in t[1]]]
    if k in ("S", "Z"):
        import json
        return [k, sorted([strip_sharing(x) for x in t[1]], key=lambda c: json.dumps(c, sort_keys=True))]
    if k == "D":
        import json
        return [k, sorted([[strip_sharing(a), strip_sharing(b)] for a, b in t[1]],
                          key=lambda c: json.dumps(c, sort_keys=True))]
    if k == "C":
        return ["C", dict((f, strip_sharing(x)) for f, x in t[1].items())]
    return t
