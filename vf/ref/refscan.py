"""Walk a marshal stream and report which type codes it uses (no values are built).

Used to decide whether a stream written for version V only uses what V's marshal knows:
binary floats / complex ('g', 'y') arrived with marshal version 2 (Python 2.5), interned strings and
string references ('t', 'R') with version 1 (Python 2.4), FLAG_REF / 'r' / short ASCII forms /
small tuples with versions 3 and 4 (Python 3.4).
"""
import struct


class ScanError(Exception):
    pass


def scan(data, vt):
    """-> (set of type-code characters used, any FLAG_REF seen, bytes consumed)"""
    pos = [0]
    used = set()
    flagged = [False]

    def rd(n):
        b = data[pos[0]:pos[0] + n]
        if len(b) != n:
            raise ScanError("truncated")
        pos[0] += n
        return b

    def i32():
        return struct.unpack("<i", rd(4))[0]

    def obj():
        c = rd(1)[0]
        if c & 0x80:
            flagged[0] = True
        t = chr(c & 0x7F)
        used.add(t)
        if t in "0NFTS.":
            return
        if t == "i":
            rd(4)
        elif t == "I":
            rd(8)
        elif t == "l":
            rd(2 * abs(i32()))
        elif t == "f":
            rd(rd(1)[0])
        elif t == "g":
            rd(8)
        elif t == "x":
            rd(rd(1)[0])
            rd(rd(1)[0])
        elif t == "y":
            rd(16)
        elif t in "sutaA":
            rd(i32())
        elif t in "zZ":
            rd(rd(1)[0])
        elif t in "Rr":
            rd(4)
        elif t == ")":
            for _ in range(rd(1)[0]):
                obj()
        elif t in "([<>":
            for _ in range(i32()):
                obj()
        elif t == "{":
            while True:
                if data[pos[0]:pos[0] + 1] == b"0":
                    pos[0] += 1
                    break
                obj()
                obj()
        elif t == "c":
            nints = 4                                   # argcount nlocals stacksize flags
            if vt >= (3, 0):
                nints += 1                              # kwonlyargcount
            if vt >= (3, 8):
                nints += 1                              # posonlyargcount
            if vt >= (3, 11):
                nints -= 1                              # no nlocals
            if vt < (2, 3):
                rd(2 * nints)
            else:
                rd(4 * nints)
            if vt >= (3, 11):
                for _ in range(7):                      # code consts names localsplusnames localspluskinds filename name
                    obj()
                obj()                                   # qualname
                rd(4)
                obj()
                obj()
            else:
                for _ in range(8):                      # code consts names varnames freevars cellvars filename name
                    obj()
                rd(4 if vt >= (2, 3) else 2)
                obj()
        else:
            raise ScanError("unknown type code %r at %d" % (t, pos[0] - 1))

    obj()
    return used, flagged[0], pos[0]


def not_for_version(data, vt):
    """type codes in `data` that Python `vt`'s marshal cannot read"""
    used, flagged, _ = scan(data, vt)
    bad = set()
    if vt < (2, 5):
        bad |= used & set("gy")
    if vt < (2, 4):
        bad |= used & set("tR<>")
    if vt < (3, 4):
        bad |= used & set("raAzZ)")
        if flagged:
            bad.add("FLAG_REF")
    if vt >= (3, 0):
        bad |= used & set("R")
    if vt >= (3, 4):
        bad |= used & set("I")
    return bad
