"""Helpers over canonical trees (see refworker.canon)."""
import binascii
import json


def kind(t):
    return t[0] if isinstance(t, list) and t else "?"


def diff(exp, got, path=""):
    """First difference between two canonical trees: (path, exp_summary, got_summary) or None."""
    if exp == got:
        return None
    if not isinstance(exp, list) or not isinstance(got, list) or not exp or not got:
        return (path, summary(exp), summary(got))
    ke, kg = exp[0], got[0]
    if ke != kg:
        return (path, summary(exp), summary(got))
    if ke in ("T", "L", "S", "Z"):
        if len(exp[1]) != len(got[1]):
            return (path, "%s[len %d]" % (ke, len(exp[1])), "%s[len %d]" % (kg, len(got[1])))
        for i, (a, b) in enumerate(zip(exp[1], got[1])):
            d = diff(a, b, "%s/%s%d" % (path, ke, i))
            if d:
                return d
        return None
    if ke == "D":
        if len(exp[1]) != len(got[1]):
            return (path, "D[len %d]" % len(exp[1]), "D[len %d]" % len(got[1]))
        for i, (a, b) in enumerate(zip(exp[1], got[1])):
            d = diff(a[0], b[0], "%s/Dk%d" % (path, i)) or diff(a[1], b[1], "%s/Dv%d" % (path, i))
            if d:
                return d
        return None
    if ke == "C":
        fe, fg = exp[1], got[1]
        for f in sorted(set(fe) | set(fg)):
            if f.startswith("x_") and (f not in fe or f not in fg):
                continue        # xdis-only information: compared only between two xdis results
            if f not in fe:
                return (path + "/" + f, "<absent>", summary(fg[f]))
            if f not in fg:
                return (path + "/" + f, summary(fe[f]), "<absent>")
            d = diff(fe[f], fg[f], path + "/" + f)
            if d:
                return d
        return None
    return (path, summary(exp), summary(got))


def summary(t, n=60):
    s = json.dumps(t)
    return s if len(s) <= n else s[:n] + "..."


def field_of(path):
    """Last code-object field name on a diff path, for signatures."""
    parts = [p for p in path.split("/") if p.startswith("co_")]
    return parts[-1] if parts else ""


def count_codes(t):
    k = kind(t)
    if k == "C":
        return 1 + sum(count_codes(x) for x in t[1].values())
    if k in ("T", "L", "S", "Z"):
        return sum(count_codes(x) for x in t[1])
    if k == "D":
        return sum(count_codes(a) + count_codes(b) for a, b in t[1])
    return 0


def const_kinds(t, acc=None):
    if acc is None:
        acc = set()
    k = kind(t)
    if k == "C":
        for f, x in t[1].items():
            if f == "co_consts":
                const_kinds(x, acc)
        return acc
    acc.add(k)
    if k in ("T", "L", "S", "Z"):
        for x in t[1]:
            const_kinds(x, acc)
    return acc


def text_of(t):
    return binascii.unhexlify(t[1]).decode("utf-8", "surrogatepass")


def is_nan_bits(hexbits):
    v = int(hexbits, 16)
    return (v >> 52) & 0x7FF == 0x7FF and (v & ((1 << 52) - 1)) != 0


def normalize_nan(t):
    """Text-float encodings cannot carry a NaN's sign/payload: make every NaN the same."""
    k = kind(t)
    if k == "f":
        return ["f", "nan"] if is_nan_bits(t[1]) else t
    if k == "c":
        return ["c", "nan" if is_nan_bits(t[1]) else t[1], "nan" if is_nan_bits(t[2]) else t[2]]
    if k in ("T", "L", "S", "Z"):
        items = [normalize_nan(x) for x in t[1]]
        if k in ("S", "Z"):
            items = sorted(items, key=lambda c: json.dumps(c, sort_keys=True))
        return [k, items]
    if k == "D":
        return [k, sorted([[normalize_nan(a), normalize_nan(b)] for a, b in t[1]],
                          key=lambda c: json.dumps(c, sort_keys=True))]
    if k == "C":
        return ["C", dict((f, normalize_nan(x)) for f, x in t[1].items())]
    return t
