"""G-VALUE: marshalable values as canonical trees, with a sharing plan."""
import binascii
import struct

from hypothesis import strategies as st


def hexs(b):
    return binascii.hexlify(b).decode()


INT_EDGES = [0, 1, -1, 2, 127, 128, 255, 256, 32767, 32768, 65535, 65536, 2 ** 15 - 1, 2 ** 15, 2 ** 30,
             2 ** 31 - 1, 2 ** 31, -2 ** 31, -2 ** 31 - 1, 2 ** 32, 2 ** 45, 2 ** 63 - 1, 2 ** 63, -2 ** 63,
             -2 ** 63 - 1, 2 ** 64, 10 ** 30, -10 ** 30, 2 ** 200 + 12345,
             2 ** 481, 2 ** 495 - 1, 10 ** 200, -(3 ** 400), 2 ** 1000, 7 ** 777, 2 ** 975 + 1]      # 33 ... 67 marshal digits


# integers of more than 4096 15-bit marshal digits (writers that work in blocks, hosts with an int->str digit limit);
# canonical form is hexadecimal for these (refworker._istr)
HUGE_INTS = ["0x1" + "0" * 15360, "0x1" + "0" * 15359 + "1", "-0x1" + "0" * 17500, "0x8" + "0" * 15363 + "7", "0x1" + "0" * 30720,
             "0x" + "f" * 15360, "0x7fff" + "0" * 15360 + "7fff"]


def ints():
    base = st.one_of(st.sampled_from(INT_EDGES), st.integers(-300, 300),
                     st.integers(-2 ** 70, 2 ** 70)).map(lambda n: ["i", str(n)])
    return st.integers(0, 59).flatmap(lambda k: st.sampled_from(HUGE_INTS).map(lambda s_: ["i", s_]) if k == 7 else base)


def fbits(f):
    return hexs(struct.pack(">d", f))


FLOAT_EDGES = [0.0, -0.0, 1.0, -1.5, float("inf"), float("-inf"), float("nan"), 1e308, 5e-324, 0.1,
               1.7976931348623157e308, 2.5e-10, 123456789.125,
               struct.unpack(">d", b"\xff\xf8\x00\x00\x00\x00\x00\x00")[0],       # NaN with the sign bit
               struct.unpack(">d", b"\x7f\xf8\x00\x00\x00\x00\x00\x01")[0]]       # NaN with a payload


def floats():
    return st.one_of(st.sampled_from(FLOAT_EDGES), st.floats(allow_nan=True, allow_infinity=True)).map(
        lambda f: ["f", fbits(f)])


def complexes():
    fl = st.one_of(st.sampled_from(FLOAT_EDGES), st.floats(allow_nan=True, allow_infinity=True))
    return st.tuples(fl, fl).map(lambda p: ["c", fbits(p[0]), fbits(p[1])])


def byteses():
    return st.one_of(st.binary(max_size=12), st.sampled_from([b"", b"abc", b"\x00\xff\x80", b"\xe9", b"x" * 256,
                                                             b"caf\xc3\xa9", b"\xed\xa0\x80", b"a\xed\xb0\x80z", b"\xf4\x90\x80\x80"])).map(lambda b: ["y", hexs(b)])


TEXT_EDGES = ["", "a", "abc", "x" * 255, "x" * 256, "\xe9", "caf\xe9", "€", "\U0001f600", "a\x00b",
              "\x7f", "\x80", "\xff", "Ā", "￿", "na\xefve 中文", "\ufeff", "\ufeffabc", "a\ufeff", "\ufffe", "\u2028x"]
SURROGATES = ["\ud800", "\udfff", "a\udc80b", "\ud83d", "\udc00\ud800", "\ud83d\ude00", "x\ud800\udc00y",
              "\udbff\udfff", "\ud83d\ud83d\ude00"]


def texts(surrogates):
    pool = TEXT_EDGES + (SURROGATES if surrogates else [])
    alpha = st.characters(blacklist_categories=() if surrogates else ("Cs",))
    return st.one_of(st.sampled_from(pool), st.text(alphabet=alpha, max_size=8)).map(
        lambda t: ["t", hexs(t.encode("utf-8", "surrogatepass"))])


def singletons(py2):
    opts = [["N"], ["b", 1], ["b", 0], ["X"]]
    if not py2:
        opts.append(["E"])
    else:
        opts.append(["E"])
    return st.sampled_from(opts)


def leaves(py2, surrogates=True):
    i2 = ints()
    if py2:
        # Python 2 has two integer kinds: mark some as long (built as such by the 2.7 worker)
        i2 = st.tuples(ints(), st.integers(0, 2)).map(lambda p: p[0] + ["L"] if p[1] == 0 else p[0])
    return st.one_of(singletons(py2), i2, ints(), floats(), complexes(), byteses(),
                     texts(surrogates and not py2), texts(surrogates and not py2))


def _big(kind_codes, inner):
    """Compact spec of a >=255-element container: ["#", kind, n, start, [front items]];
    expanded by expand() to n consecutive ints preceded by the drawn front items."""
    return st.tuples(st.sampled_from(kind_codes), st.sampled_from([255, 256, 257, 300]),
                     st.integers(-3, 70000), st.lists(inner, max_size=2)).map(
        lambda p: ["#", p[0], p[1], p[2], p[3]])


def _has_nan(x):
    if not isinstance(x, list) or not x:
        return False
    if x[0] == "f" and isinstance(x[1], str) and len(x[1]) == 16:
        bits = int(x[1], 16)
        return (bits >> 52) & 0x7FF == 0x7FF and bits & ((1 << 52) - 1) != 0
    if x[0] == "c":
        return any(_has_nan(["f", p]) for p in x[1:3])
    if x[0] in ("T", "Z"):
        return any(_has_nan(e) for e in x[1])
    return False


def _dedupe(items):
    """set elements: equal elements once - except those holding a NaN, which never equal anything (two NaN objects
    with the same bits are two elements of a set)"""
    import json
    seen = set()
    out = []
    for x in items:
        k = json.dumps(x, sort_keys=True)
        if k not in seen or _has_nan(x):
            seen.add(k)
            out.append(x)
    return out


def _hashables(py2, surrogates=True):
    base = st.one_of(leaves(py2, surrogates), leaves(py2, surrogates), leaves(py2, surrogates),
                     st.integers(0, 3).map(lambda j: ["@h", j]))

    def extend(inner):
        return st.one_of(
            st.lists(inner, max_size=4).map(lambda xs: ["T", xs]),
            st.lists(inner, max_size=4).map(lambda xs: ["T", xs]),
            st.lists(inner, max_size=4).map(lambda xs: ["Z", _dedupe(xs)]),
            st.lists(inner, max_size=3).map(lambda xs: ["Z", _dedupe(xs)]),
            st.lists(inner, max_size=2).map(lambda xs: ["T", xs]),
            _big(["T", "Z"], inner),
        )
    return st.recursive(base, extend, max_leaves=8)


def _values(py2, surrogates=True):
    h = _hashables(py2, surrogates)
    base = st.one_of(h, h, st.integers(0, 3).map(lambda j: ["@", j]))

    def extend(inner):
        return st.one_of(
            st.lists(inner, max_size=4).map(lambda xs: ["T", xs]),
            st.lists(inner, max_size=4).map(lambda xs: ["L", xs]),
            st.lists(h, max_size=4).map(lambda xs: ["S", _dedupe(xs)]),
            st.lists(st.tuples(h, inner), max_size=4).map(
                lambda kv: ["D", [[k, v] for k, v in kv]]),
            st.lists(st.tuples(h, inner), max_size=2).map(
                lambda kv: ["D", [[k, v] for k, v in kv]]),
            st.lists(inner, max_size=3).map(lambda xs: ["T", xs]),
            st.lists(inner, max_size=3).map(lambda xs: ["L", xs]),
            _big(["T", "L", "S"], h),
        )
    return st.recursive(base, extend, max_leaves=10)


_STRATS = {}


def strat(name, py2, surrogates=True):
    key = (name, py2, surrogates)
    if key not in _STRATS:
        _STRATS[key] = (_hashables if name == "h" else _values)(py2, surrogates)
    return _STRATS[key]


def resolve(t, pool, hashable_ctx=False):
    """Replace placeholders ["@", j] / ["@h", j] by pool entries (sharing nodes)."""
    k = t[0]
    if k in ("@", "@h"):
        cands = [p for p, hh in pool if hh] if (k == "@h" or hashable_ctx) else [p for p, _ in pool]
        if not cands:
            return ["i", str(7 + t[1])]
        return cands[t[1] % len(cands)]
    if k == "=":
        return t
    if k in ("T", "L"):
        return [k, [resolve(x, pool, hashable_ctx) for x in t[1]]]
    if k in ("S", "Z"):
        return [k, _dedupe([resolve(x, pool, True) for x in t[1]])]
    if k == "D":
        return [k, [[resolve(a, pool, True), resolve(b, pool, hashable_ctx)] for a, b in t[1]]]
    if k == "#":
        return ["#", t[1], t[2], t[3], [resolve(x, pool, hashable_ctx or t[1] in ("S", "Z")) for x in t[4]]]
    return t


def expand(t):
    """Expand compact big-container specs (recursively); the result is a plain tree with
    sharing nodes."""
    k = t[0]
    if k == "#":
        kind, n, start, front = t[1], t[2], t[3], [expand(x) for x in t[4]]
        items = front + [["i", str(start + i)] for i in range(max(0, n - len(front)))]
        if kind in ("S", "Z"):
            items = _dedupe(items)
        return [kind, items]
    if k == "=":
        return ["=", t[1], expand(t[2])]
    if k in ("T", "L", "S", "Z"):
        return [k, [expand(x) for x in t[1]]]
    if k == "D":
        return [k, [[expand(a), expand(b)] for a, b in t[1]]]
    return t


@st.composite
def shared_values(draw, py2, surrogates=True):
    """A list of values whose sub-objects are shared according to a drawn plan: k pool objects,
    each built once ("=" nodes carry the pool id), referenced from several places, nested."""
    npool = draw(st.integers(0, 3))
    pool = []       # (node, hashable)
    for i in range(npool):
        want_h = draw(st.booleans())
        v = draw(strat("h" if want_h else "v", py2, surrogates))
        v = resolve(v, pool, want_h)
        if v[0] == "=":
            pool.append((v, is_hashable(v)))
        else:
            pool.append((["=", i, v], is_hashable(v)))
    n = draw(st.integers(1, 4))
    items = [resolve(draw(strat("v", py2, surrogates)), pool) for _ in range(n)]
    if pool and draw(st.booleans()):
        # make sure something really is referenced at least twice
        p = pool[draw(st.integers(0, len(pool) - 1))][0]
        items += [p, ["T", [p, p]]]
    return items


def is_hashable(t):
    k = t[0]
    if k == "=":
        return is_hashable(t[2])
    if k in ("L", "S", "D"):
        return False
    if k == "#":
        return t[1] in ("T", "Z") and all(is_hashable(x) for x in t[4])
    if k in ("T", "Z"):
        return all(is_hashable(x) for x in t[1])
    return True


def kinds_in(t, acc=None):
    if acc is None:
        acc = set()
    k = t[0]
    if k == "=":
        acc.add("shared")
        kinds_in(t[2], acc)
        return acc
    acc.add(k)
    if k in ("T", "L", "S", "Z"):
        if len(t[1]) >= 256:
            acc.add("big")
        for x in t[1]:
            kinds_in(x, acc)
    elif k == "D":
        for a, b in t[1]:
            if a[0] == "N" or b[0] == "N":
                acc.add("dict-none")
            kinds_in(a, acc)
            kinds_in(b, acc)
    elif k == "t":
        raw = binascii.unhexlify(t[1])
        if any(c >= 128 for c in raw):
            acc.add("nonascii")
    return acc


def share_counts(t, acc=None):
    if acc is None:
        acc = {}
    k = t[0]
    if k == "=":
        acc[t[1]] = acc.get(t[1], 0) + 1
        if acc[t[1]] == 1:
            share_counts(t[2], acc)
    elif k in ("T", "L", "S", "Z"):
        for x in t[1]:
            share_counts(x, acc)
    elif k == "D":
        for a, b in t[1]:
            share_counts(a, acc)
            share_counts(b, acc)
    return acc
