"""G-LINETAB / G-LOCTAB / G-EXCTAB: line, location and exception tables drawn from the table side.

lnotab (<= 3.9) and the 3.10 table accept any byte pairs; the 3.11+ location table and the
exception table are produced by the encoders below from drawn *entries*, so they are always
well-formed (CPython's C readers are not safe on malformed 3.11 tables).
"""
from hypothesis import strategies as st

EDGE_BYTES = [0, 1, 2, 126, 127, 128, 129, 200, 254, 255]


def byte():
    return st.one_of(st.sampled_from(EDGE_BYTES), st.integers(0, 255))


@st.composite
def lnotab_cases(draw, version):
    """{"table": hex, "first": n, "codelen": N} for lnotab (<= 3.9) or the 3.10 line table"""
    n = draw(st.integers(0, 8))
    pairs = []
    if version < (3, 6) and draw(st.integers(0, 5)) == 0:
        # a table that is, as a whole, valid UTF-8 with multi-byte sequences (a binary table must not be read as text)
        txt = draw(st.text(alphabet=st.characters(min_codepoint=0x80, max_codepoint=0x7FF), min_size=1, max_size=4))
        raw = list(txt.encode("utf-8"))
        fill = [draw(st.integers(1, 0x7F)) for _ in range(draw(st.integers(0, 4)))]
        at = draw(st.integers(0, len(fill)))
        pairs = fill[:at] + raw + fill[at:]
        if len(pairs) % 2:
            pairs.append(1)
        n = 0
    for _ in range(n):
        kind = draw(st.integers(0, 5))
        if kind == 0:
            pairs += [0, draw(byte())]                        # pure line entry
        elif kind == 1:
            pairs += [draw(byte()), 0]                        # pure offset entry
        else:
            pairs += [draw(byte()), draw(byte())]
    if version >= (3, 6):
        pairs = [(p - p % 2) if i % 2 == 0 else p for i, p in enumerate(pairs)]     # word code: even offsets
    if version >= (3, 10):
        # the 3.10 table describes consecutive ranges that cover the code exactly; a table ending in zero-length
        # ranges is degenerate (no compiler emits it, and CPython and lnotab_notes.txt disagree about it)
        while pairs and pairs[-2] == 0:
            pairs = pairs[:-2]
        if not pairs:
            pairs = [2, 0]
        total = sum(pairs[0::2])
        first = draw(st.sampled_from([1, 1, 2, 100, 1000, 70000])) + 300
        return {"table": bytes(pairs).hex(), "first": first, "codelen": max(2, total)}
    total = sum(pairs[0::2])
    extra = draw(st.sampled_from([0, 2, 4, 10, 300]))
    short = draw(st.integers(0, 5)) == 0
    codelen = max(2, (total // 2 if short else total) + extra)
    codelen += codelen % 2
    first = draw(st.sampled_from([1, 1, 2, 100, 1000, 70000]))
    return {"table": bytes(pairs).hex(), "first": first, "codelen": codelen}


def varint(n):
    out = bytearray()
    while n >= 64:
        out.append(0x40 | (n & 63))
        n >>= 6
    out.append(n)
    return bytes(out)


def svarint(n):
    return varint((-n << 1) | 1) if n < 0 else varint(n << 1)


def encode_loctab(entries):
    """entries: [form, length(1-8), *params] -> bytes.  forms: short(colgroup 0-9, lowcol 0-7, width 0-15),
    oneline(dl 0-2, col, endcol), nocol(dl), long(dl, endline_delta, col|None, endcol|None), none"""
    out = bytearray()
    for e in entries:
        form, length = e[0], e[1]
        ln = (length - 1) & 7
        if form == "short":
            out.append(0x80 | (e[2] << 3) | ln)
            out.append(((e[3] & 7) << 4) | (e[4] & 15))
        elif form == "oneline":
            out.append(0x80 | ((10 + e[2]) << 3) | ln)
            out.append(e[3] & 0x7F)
            out.append(e[4] & 0x7F)
        elif form == "nocol":
            out.append(0x80 | (13 << 3) | ln)
            out += svarint(e[2])
        elif form == "long":
            out.append(0x80 | (14 << 3) | ln)
            out += svarint(e[2])
            out += varint(e[3])
            out += varint(0 if e[4] is None else e[4] + 1)
            out += varint(0 if e[5] is None else e[5] + 1)
        else:
            out.append(0x80 | (15 << 3) | ln)
    return bytes(out)


DELTAS = [0, 1, 2, 3, -1, -2, 31, 32, 33, -32, -33, 63, 64, 2047, 2048, -2048, 100000]


@st.composite
def loctab_entries(draw, first):
    n = draw(st.integers(1, 10))
    line = first
    out = []
    for _ in range(n):
        form = draw(st.sampled_from(["short", "oneline", "nocol", "long", "long", "none"]))
        length = draw(st.sampled_from([1, 1, 2, 3, 8]))
        if form == "short":
            out.append([form, length, draw(st.integers(0, 9)), draw(st.integers(0, 7)), draw(st.integers(0, 15))])
        elif form == "oneline":
            dl = draw(st.integers(0, 2))
            line += dl
            out.append([form, length, dl, draw(st.sampled_from([0, 1, 79, 80, 127])), draw(st.sampled_from([0, 5, 127]))])
        elif form == "nocol":
            dl = draw(st.sampled_from(DELTAS))
            if line + dl < 1:
                dl = 1
            line += dl
            out.append([form, length, dl])
        elif form == "long":
            dl = draw(st.sampled_from(DELTAS))
            if line + dl < 1:
                dl = 1
            line += dl
            col = draw(st.sampled_from([None, 0, 1, 62, 63, 64, 127, 128, 4095, 4096, 100000]))
            endcol = draw(st.sampled_from([None, 0, 1, 63, 64, 128, 5000]))
            out.append([form, length, dl, draw(st.sampled_from([0, 0, 1, 2, 63, 64, 5000])), col, endcol])
        else:
            out.append([form, length])
    return out


def encode_exctab(entries):
    """[[start, length, target, depth, lasti]] in code units -> bytes (6-bit big-endian groups,
    0x40 = continuation, 0x80 marks the first byte of an entry)"""
    out = bytearray()

    def put(n, first):
        groups = []
        while True:
            groups.append(n & 63)
            n >>= 6
            if not n:
                break
        groups.reverse()
        for i, g in enumerate(groups):
            b = g | (0x40 if i < len(groups) - 1 else 0)
            if first and i == 0:
                b |= 0x80
            out.append(b)
    for s, ln, t, depth, lasti in entries:
        put(s, True)
        put(ln, False)
        put(t, False)
        put((depth << 1) | (1 if lasti else 0), False)
    return bytes(out)


VARINT_EDGES = [0, 1, 2, 31, 32, 62, 63, 64, 65, 4095, 4096, 4097, 262143, 262144]


@st.composite
def exctab_entries(draw):
    n = draw(st.integers(0, 5))
    out = []
    for _ in range(n):
        s = draw(st.sampled_from(VARINT_EDGES + [3, 10]))
        # (no zero-length ranges: no compiler emits one, and 3.11/3.12's dis and 3.13's disagree on whether the handler
        # of an empty range is a jump target)
        ln = draw(st.sampled_from([1, 1, 2, 5, 63, 64, 65, 300, 4096]))
        t = draw(st.sampled_from(VARINT_EDGES + [7]))
        depth = draw(st.sampled_from([0, 1, 2, 31, 32, 33, 2048]))
        lasti = draw(st.booleans())
        out.append([s, ln, t, depth, lasti])
        if draw(st.sampled_from([False, False, True])):
            # a second range that starts where this one ends, with the same handler (two entries, not one)
            out.append([s + ln, draw(st.sampled_from([1, 2, 5])), t, depth, lasti])
    return out
