"""Helpers shared by the generators."""
from hypothesis import strategies as st


def spread(draw, options):
    """Pick one of `options` with an even spread over a run.

    Hypothesis's sampled_from clusters heavily within a few dozen examples (it re-uses and mutates earlier choice
    sequences), so that a (kind, version) stratum can stay empty in a whole shard.  A wide integer scrambled by a
    multiplicative hash does not cluster.  (Shrinking is done by vf/minimize.py on the case, not by Hypothesis.)"""
    i = draw(st.integers(0, 2 ** 30))
    return options[((i * 2654435761) >> 9) % len(options)]
