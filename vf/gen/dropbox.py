"""Dropbox-flavoured Python 2.5 files (magic 62135): code objects are XXTEA-encrypted, opcodes permuted.

This is the WRITER side (the format: key schedule from the two ints that follow the 'c', XXTEA over 32-bit words,
16-byte padding), transcribed from the published description of the format so that the harness can put arbitrary -
also hostile - plaintext behind the encryption.  Nothing of xdis is imported here."""
import struct

M = 0xFFFFFFFF
DELTA = 0x9E3779B9


def rng(a, b):
    b = ((b << 13) ^ b) & M
    c = b ^ (b >> 17)
    c = c ^ (c << 5)
    return (a * 69069 + c + 0x6611CB3B) & M


def get_keys(a, b):
    ka = rng(a, b)
    kb = rng(ka, a)
    kc = rng(kb, ka)
    kd = rng(kc, kb)
    ke = rng(kd, kc)
    return (kb, kc, kd, ke)


def MX(z, y, s, key, p, e):
    return ((z >> 5 ^ y << 2) + (y >> 3 ^ z << 4)) ^ ((s ^ y) + (key[(p & 3) ^ e] ^ z))


def tea_encipher(v, key):
    n = len(v)
    rounds = 6 + 52 // n
    s = 0
    z = v[n - 1]
    for _ in range(rounds):
        s = (s + DELTA) & M
        e = (s >> 2) & 3
        for p in range(n):
            y = v[(p + 1) % n]
            v[p] = (v[p] + MX(z, y, s, key, p, e)) & M
            z = v[p]
    return v


def mstr(b):
    return b"s" + struct.pack("<i", len(b)) + b


def inner_code(co_code, consts=None):
    """a Python 2.5 code object without the leading 'c' (that is what gets encrypted)"""
    empty = b"(" + struct.pack("<i", 0)
    return (struct.pack("<iiii", 0, 0, 1, 64) + mstr(co_code) + (consts if consts is not None else b"(" + struct.pack("<i", 1) + b"N")
            + empty + empty + empty + empty + mstr(b"hostile.py") + mstr(b"<module>") + struct.pack("<i", 1) + mstr(b""))


def dropbox_pyc(plain, a=0x1234567, b=None):
    """header + 'c' a b + encrypted(plain padded to 16 bytes)"""
    if b is None:
        b = len(plain)
    padsize = (len(plain) + 15) & ~0xF
    plain = plain.ljust(padsize, b"\0")
    words = list(struct.unpack("<%dL" % (padsize // 4), plain))
    enc = tea_encipher(words, get_keys(a, b)) if words else []
    body = b"c" + struct.pack("<ii", a, b) + struct.pack("<%dL" % len(enc), *enc)
    return struct.pack("<H", 62135) + b"\r\n" + struct.pack("<I", 1300000000) + body
