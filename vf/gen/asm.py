"""G-ASM: assembled code objects (operands with 0-3 EXTENDED_ARG prefixes in every position).

A case is a list of items {"op": name, "arg": n | None, "pre": forced prefix count, "to": item index | None}
for one bytecode version.  assemble() lays it out by fix-point iteration (prefixes change offsets),
emitting 1/3-byte code before 3.6, word code from 3.6, x2 jump scaling from 3.10, backward-jump opcodes
from 3.11 and the inline CACHE units each instruction needs from 3.11 (taken from the real interpreter's
opcode._inline_cache_entries: CPython >= 3.12 initialises them when a code object is created).
Nothing random happens here; the Hypothesis strategy is asm_cases().
"""
from hypothesis import strategies as st

NTAB = 300          # size of the padded co_consts / co_names / co_varnames tables

# opcodes never found in co_code, or whose operand CPython's dis / code constructor must index into
# structures we do not build
NEVER = ("INSTRUMENTED_", "ENTER_EXECUTOR", "RESERVED", "INTERPRETER_EXIT", "CACHE", "EXTENDED_ARG", "<")
# operand-taking opcodes whose operand dis looks up in a small fixed table: keep the operand small
ENUMERATED = {"BINARY_OP": 26, "COMPARE_OP": 6, "IS_OP": 2, "CONTAINS_OP": 2, "CALL_INTRINSIC_1": 12, "CALL_INTRINSIC_2": 6,
              "FORMAT_VALUE": 8, "CONVERT_VALUE": 4, "RAISE_VARARGS": 3, "MAKE_FUNCTION": 16, "SET_FUNCTION_ATTRIBUTE": 9,
              "RESUME": 4, "COPY_FREE_VARS": 1, "RETURN_GENERATOR": 1, "GEN_START": 3, "LOAD_ASSERTION_ERROR": 1,
              "BUILD_SLICE": 4, "FORMAT_WITH_SPEC": 1, "FORMAT_SIMPLE": 1}
MAGNITUDES = [(0, 255), (256, 65535), (65536, 2 ** 24 - 1), (2 ** 24, 2 ** 31 - 1)]


def vt(v):
    return tuple(int(x) for x in v.replace("pypy", "").split(".")[:2])


class Tables:
    """what the assembler needs to know about one version: from the real interpreter's opcode module"""

    def __init__(self, version, ref):
        self.v = vt(version)
        self.opmap = dict((n, c) for n, c in ref["opmap"].items() if c < 256)
        self.have_arg = ref["HAVE_ARGUMENT"]
        self.hasarg = set(ref["hasarg"]) if "hasarg" in ref else None
        self.ext = ref["EXTENDED_ARG"]
        self.jrel = set(ref.get("hasjrel", []))
        self.jabs = set(ref.get("hasjabs", []))
        self.const = set(ref.get("hasconst", []))
        self.name = set(ref.get("hasname", []))
        self.local = set(ref.get("haslocal", []))
        self.free = set(ref.get("hasfree", []))
        self.compare = set(ref.get("hascompare", []))
        self.caches = dict(ref.get("caches", {})) if self.v >= (3, 11) else {}
        self.names = sorted(n for n in self.opmap if not any(n.startswith(p) for p in NEVER))

    def takes(self, code):
        return (code in self.hasarg) if self.hasarg is not None else code >= self.have_arg

    def kind(self, name):
        c = self.opmap[name]
        if not self.takes(c):
            return "none"
        if c in self.jrel or c in self.jabs:
            return "jump"
        if c in self.const or c in self.name or c in self.local or c in self.free or c in self.compare:
            return "table"
        if name in ENUMERATED:
            return "enum"
        return "free"

    def table_limit(self, name):
        """largest safe operand for a table-indexed opcode"""
        c = self.opmap[name]
        v = self.v
        if c in self.compare:
            return {True: 5}.get(True) if v < (3, 12) else (5 << 4) + 15 if v < (3, 13) else (5 << 5) + 31
        if c in self.name:
            if v >= (3, 12) and name == "LOAD_SUPER_ATTR":
                return (NTAB - 1) * 4 + 3
            if (v >= (3, 11) and name == "LOAD_GLOBAL") or (v >= (3, 12) and name == "LOAD_ATTR"):
                return (NTAB - 1) * 2 + 1
            return NTAB - 1
        if c in self.local:
            if v >= (3, 13) and name in ("LOAD_FAST_LOAD_FAST", "STORE_FAST_LOAD_FAST", "STORE_FAST_STORE_FAST"):
                return 255
            return NTAB - 1
        if c in self.free:
            # cell/free index: 8 cells + 8 frees (3.11+: placed after the locals)
            return (NTAB + 15) if v >= (3, 11) else 15
        return NTAB - 1


def nprefix(arg, v):
    if arg is None:
        return 0
    if v >= (3, 6):
        return 0 if arg < 256 else (1 if arg < 65536 else (2 if arg < 2 ** 24 else 3))
    return 0 if arg < 65536 else 1


def assemble(tab, items):
    """-> (co_code bytes, starts: offset of each item's first byte (its first prefix), layout info)"""
    v = tab.v
    word = v >= (3, 6)
    n = len(items)
    pre = [min(3 if word else 1, int(it.get("pre") or 0)) for it in items]
    # "xpre": a NON-zero EXTENDED_ARG in front of an operand-less instruction (word code).  Interpreters up to 3.9 let
    # it leak into the next operand, 3.10+ drop it (bpo-45757): whatever the version's own dis does is the reference.
    xpre = [int(it.get("xpre") or 0) & 0xFF if (v >= (3, 10) and not tab.takes(tab.opmap[it["op"]])) else 0 for it in items]
    pre = [1 if xpre[i] else p for i, p in enumerate(pre)]
    args = [it.get("arg") for it in items]
    # "rep": a run of that many copies of an operand-less instruction (padding that pushes jump operands past 2^16)
    reps = [max(1, min(140000, int(it.get("rep") or 1))) if not tab.takes(tab.opmap[it["op"]]) else 1 for it in items]
    for _ in range(12):
        # sizes and offsets with the current prefix counts
        starts, ends, ops = [], [], []
        off = 0
        for i, it in enumerate(items):
            code = tab.opmap[it["op"]]
            takes = tab.takes(code)
            starts.append(off)
            unit = 2 if word else (3 if takes else 1)
            ext_unit = 2 if word else 3
            off += pre[i] * ext_unit
            ops.append(off)
            off += unit * reps[i]
            if word:
                off += 2 * tab.caches.get(it["op"], 0)
            ends.append(off)
        total = off
        changed = False
        for i, it in enumerate(items):
            code = tab.opmap[it["op"]]
            if it.get("to") is not None and tab.takes(code):
                tgt = starts[it["to"] % n] if it["to"] % (n + 1) != n else total
                scale = 2 if v >= (3, 10) else 1
                if code in tab.jabs:
                    a = tgt // scale
                elif "BACKWARD" in it["op"]:
                    a = (ends[i] - tgt) // scale
                    if a < 0:
                        a = 0       # a backward opcode cannot reach forward: jump to its own end
                else:
                    a = (tgt - ends[i]) // scale
                    if a < 0:
                        a = 0
                args[i] = a
            need = nprefix(args[i], v) if tab.takes(code) else 0
            if need > pre[i]:
                pre[i] = need
                changed = True
        if not changed:
            break
    out = bytearray()
    for i, it in enumerate(items):
        code = tab.opmap[it["op"]]
        takes = tab.takes(code)
        a = args[i] if takes else None
        if word:
            aa = a or 0
            if xpre[i]:
                aa = xpre[i] << 8
            for k in range(pre[i], 0, -1):
                out += bytes([tab.ext, (aa >> (8 * k)) & 0xFF])
            out += bytes([code, aa & 0xFF]) * reps[i]
            out += b"\x00\x00" * tab.caches.get(it["op"], 0)
        else:
            if takes:
                if pre[i]:
                    hi = (a >> 16) & 0xFFFF
                    out += bytes([tab.ext, hi & 0xFF, hi >> 8])
                out += bytes([code, a & 0xFF, (a >> 8) & 0xFF])
            else:
                out += bytes([code]) * reps[i]
    return bytes(out), starts, {"args": args, "pre": pre}


def jump_patterns(tab):
    """Small fixed item lists every version is given besides the drawn ones: a jump back to offset 0, forward to
    len(co_code), onto the next instruction, each also with a forced (zero) EXTENDED_ARG prefix."""
    fwd = "JUMP_FORWARD"
    back = "JUMP_ABSOLUTE" if "JUMP_ABSOLUTE" in tab.opmap else "JUMP_BACKWARD"
    pad = "NOP" if "NOP" in tab.opmap else "POP_TOP"
    if fwd not in tab.opmap or back not in tab.opmap or pad not in tab.opmap:
        return []
    nop = {"op": pad, "arg": None, "pre": 0, "to": None}
    out = []
    for pre in (0, 1):
        out.append([dict(nop), {"op": back, "arg": 0, "pre": pre, "to": 0}, {"op": fwd, "arg": 0, "pre": pre, "to": -1},
                    {"op": fwd, "arg": 0, "pre": pre, "to": 4}, dict(nop), {"op": back, "arg": 0, "pre": 0, "to": 4}])
    return out


def opcode_sweeps(tab, chunk=24):
    """Fixed item lists in which EVERY assemblable opcode of the version occurs once (grouped by operand kind): random
    draws leave rare opcodes of a 13-example stratum untouched for many runs."""
    by_kind = {}
    for nme in tab.names:
        by_kind.setdefault(tab.kind(nme), []).append(nme)
    pad = "NOP" if "NOP" in tab.opmap else "POP_TOP"
    out = []
    for kind in ("jump", "table", "enum", "free", "none"):
        names = sorted(by_kind.get(kind, []))
        for at in range(0, len(names), chunk):
            items = []
            for j, nme in enumerate(names[at:at + chunk]):
                it = {"op": nme, "arg": None, "pre": 0, "to": None}
                if kind == "jump":
                    it["arg"] = 0
                    it["to"] = 3 * j + 2          # its own target: the second of the two pads that follow it
                elif kind == "table":
                    it["arg"] = min(tab.table_limit(nme), 1 + j)
                elif kind == "enum":
                    it["arg"] = min(ENUMERATED[nme] - 1, 1)
                elif kind == "free":
                    it["arg"] = 2 + j
                items.append(it)
                if kind == "jump" and pad in tab.opmap:
                    items.append({"op": pad, "arg": None, "pre": 0, "to": None})
                    items.append({"op": pad, "arg": None, "pre": 0, "to": None})
            if items:
                out.append(items)
    return out


def none_linetable(ncodeunits):
    """3.11+ location table saying 'no location' for every code unit"""
    out = bytearray()
    while ncodeunits > 0:
        k = min(8, ncodeunits)
        out.append(0x80 | (15 << 3) | (k - 1))
        ncodeunits -= k
    return bytes(out)


def code_fields(tab, co_code, hx, ntab=None):
    """canonical `fields` for refworker.op_mkcode: padded tables so that every table index resolves"""
    NTAB = ntab or globals()["NTAB"]
    v = tab.v
    py2 = v < (3, 0)
    sk = "y" if py2 else "t"

    def names(prefix, k):
        return ["T", [[sk, hx(("%s%d" % (prefix, i)).encode())] for i in range(k)]]
    f = {
        "co_code": ["y", hx(co_code)],
        "co_consts": ["T", [["i", str(i)] for i in range(NTAB)]],
        "co_names": names("n", NTAB),
        "co_varnames": names("v", NTAB),
        "co_nlocals": ["i", str(NTAB)],
        "co_cellvars": names("c", 8),
        "co_freevars": names("f", 8),
        "co_stacksize": ["i", "10"],
        "co_flags": ["i", "0"],
    }
    if v >= (3, 11):
        f["co_linetable"] = ["y", hx(none_linetable(len(co_code) // 2))]
        f["co_exceptiontable"] = ["y", ""]
    elif v >= (3, 10):
        f["co_linetable"] = ["y", ""]
    else:
        f["co_linetable"] = ["y", ""]
    return f


def asm_cases(version, tab, max_items=14, padding=True):
    """Hypothesis strategy of item lists for one version"""
    v = tab.v
    by_kind = {}
    for nme in tab.names:
        by_kind.setdefault(tab.kind(nme), []).append(nme)
    kinds = [k for k in ("none", "jump", "table", "enum", "free") if by_kind.get(k)]
    maxpre = 3 if v >= (3, 6) else 1
    # (word code: three prefixes reach 2^32 - 1; CPython's dis reports such operands unsigned up to 3.10, signed from 3.11)
    mags = (MAGNITUDES + [(2 ** 31, 2 ** 32 - 1)]) if v >= (3, 6) else [(0, 255), (256, 65535), (65536, 2 ** 24 - 1), (2 ** 24, 2 ** 31 - 1)]

    @st.composite
    def item(draw):
        k = draw(st.sampled_from(kinds + ["jump", "free"]))
        if k not in by_kind:
            k = "none"
        name = draw(st.sampled_from(by_kind[k]))
        it = {"op": name, "arg": None, "pre": 0, "to": None}
        if k == "none":
            # (only from 3.10: the dis of 3.6-3.9 lets such an EXTENDED_ARG leak into the next operand, which that
            # version's own interpreter never did - CPython fixed dis in 3.10, bpo-45757; no compiler emits the sequence)
            if v >= (3, 10) and draw(st.sampled_from([False] * 7 + [True])):
                it["xpre"] = 1
            return it
        it["pre"] = draw(st.sampled_from([0, 0, 0, 1, 2, maxpre])) if maxpre > 1 else draw(st.sampled_from([0, 0, 1]))
        it["pre"] = min(it["pre"], maxpre)
        if k == "jump":
            # -1: the offset just past the last instruction (len(co_code)), a legal jump target
            it["to"] = draw(st.sampled_from([0, -1] + list(range(0, max_items + 1)) * 2))
            it["arg"] = 0
        elif k == "table":
            it["arg"] = draw(st.integers(0, tab.table_limit(name)))
        elif k == "enum":
            it["arg"] = draw(st.integers(0, ENUMERATED[name] - 1))
        else:
            lo, hi = draw(st.sampled_from(mags))
            it["arg"] = draw(st.one_of(st.sampled_from([lo, hi]), st.integers(lo, hi)))
        return it
    base = st.lists(item(), min_size=1, max_size=max_items)
    pad = "NOP" if "NOP" in tab.opmap else ("POP_TOP" if "POP_TOP" in tab.opmap else None)
    if pad is None or not padding:
        return base
    # one case in ten carries a long run of NOPs, so that jumps across it need operands >= 2^16 (real EXTENDED_ARG
    # high bits in jump arithmetic); the run is long enough for each encoding of the operand
    units = 66000 if v < (3, 10) else 66000
    run = {"op": pad, "arg": None, "pre": 0, "to": None, "rep": units if (v < (3, 6) or v >= (3, 10)) else units // 2}

    @st.composite
    def padded(draw):
        items = draw(base)
        if draw(st.sampled_from([False] * 9 + [True])):
            at = draw(st.integers(0, len(items)))
            items = items[:at] + [dict(run)] + items[at:]
        return items
    return padded()
