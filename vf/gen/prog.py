"""G-PROG: Python programs from a grammar, rendered for a target version.

The strategy yields *source text* (so a replay file is just the program).  Everything random
is drawn through Hypothesis.  `exec_safe=True` restricts to programs that terminate and touch
nothing outside the interpreter (used where the program is executed).
"""
from hypothesis import strategies as st


def vt(v):
    return tuple(int(x) for x in v.split(".")[:2])


INT_CONSTS = ["0", "1", "-1", "2", "255", "256", "65535", "65536", "2147483647", "2147483648",
              "-2147483648", "-2147483649", "4294967296", "9223372036854775807", "9223372036854775808",
              "-9223372036854775809", "10**30", "123456789012345678901234567890", "0x7fffffff", "1 << 70"]
FLOAT_CONSTS = ["0.0", "-0.0", "1.5", "1e308", "1e309", "-1e309", "5e-324", "0.1", "1e309 - 1e309",
                "2.5e-10", "3.14159"]
COMPLEX_CONSTS = ["1j", "-0.0j", "1.5+2j", "1e309j", "0j"]
TEXT_BODIES = ["", "a", "abc", "hello world", "x" * 40, "caf\\xe9", "\\u20ac", "\\U0001f600", "a\\x00b",
               "\\xff", "\\u0100", "na\\xefve \\u4e2d\\u6587", "it's", 'say "hi"', "tab\\there", "nl\\nx"]
SURR_BODIES = ["\\ud800", "\\udfff", "a\\udc80b", "\\ud83d"]
BYTES_BODIES = ["", "abc", "\\x00\\xff\\x80", "\\xe9", "caf\\xc3\\xa9", "x" * 30]

NAMES = ["a", "b", "c", "d", "e", "x", "y", "z", "n", "m", "k", "items", "acc", "res", "val", "tmp"]
FUNCS = ["f", "g", "h", "helper", "compute", "walk"]
CLASSES = ["A", "B", "Node", "Base"]
ATTRS = ["attr", "value", "next", "size", "name"]
GLOBAL_CALLS = ["len", "str", "int", "abs", "repr", "list", "tuple", "sorted", "sum", "min", "max"]
EXCS = ["ValueError", "KeyError", "TypeError", "IndexError", "ZeroDivisionError", "Exception"]


class Gen:
    def __init__(self, draw, version, exec_safe=False, size=4, bulk=True):
        self.draw = draw
        self.v = vt(version)
        self.py2 = self.v < (3, 0)
        self.exec_safe = exec_safe
        self.size = size
        self.bulk = bulk
        self.lines = []
        self.uid = 0
        self.features = set()

    # -- helpers
    def i(self, lo, hi):
        return self.draw(st.integers(lo, hi))

    def pick(self, seq):
        return self.draw(st.sampled_from(list(seq)))

    def chance(self, n):
        """True with probability ~1/n"""
        return self.draw(st.integers(0, n - 1)) == 0

    def fresh(self, prefix="v"):
        self.uid += 1
        return "%s%d" % (prefix, self.uid)

    def emit(self, depth, text):
        self.lines.append("    " * depth + text)

    def gap(self):
        """blank lines between statements: usually none, sometimes big (line deltas >= 128, >= 256)"""
        k = self.i(0, 19)
        if k == 0:
            n = self.pick([127, 128, 129, 200, 255, 256, 257, 300, 400, 1100, 2100, 4200])
            self.features.add("linegap>=127")
            self.lines.extend([""] * n)
        elif k < 4:
            self.lines.extend([""] * self.i(1, 3))

    # -- constants
    def const(self):
        k = self.i(0, 11)
        if k <= 2:
            return self.pick(INT_CONSTS) if self.chance(2) else str(self.i(-300, 70000))
        if k == 3:
            return self.pick(FLOAT_CONSTS)
        if k == 4:
            return self.pick(COMPLEX_CONSTS)
        if k in (5, 6):
            body = self.pick(TEXT_BODIES + (SURR_BODIES if not self.py2 else []))
            if "\\ud" in body:
                self.features.add("surrogate-const")
            q = "'%s'" % body.replace("'", "\\'")
            if self.py2:
                return ("u" + q) if (self.chance(2) or "\\u" in body or "\\U" in body) else q
            return q
        if k == 7:
            body = self.pick(BYTES_BODIES)
            return ("b'%s'" % body) if not self.py2 or self.v >= (2, 6) else "'%s'" % body
        if k == 8:
            return self.pick(["None", "True", "False"] + (["..."] if not self.py2 else ["Ellipsis"]))
        if k == 9:
            n = self.i(0, 4)
            items = [self.const() for _ in range(n)]
            return "(" + ", ".join(items) + ("," if n == 1 else "") + ")"
        if k == 10 and self.py2:
            return self.pick(["1L", "0L", "0L", "-5L", "123456789012L", "0xFFFFFFFFFFFFL", "2147483648L"])
        return str(self.i(0, 9))

    # -- expressions
    def name(self):
        return self.pick(NAMES)

    def expr(self, d=0):
        k = self.i(0, 22) if d < 3 else self.i(0, 3)
        e = self._expr(k, d)
        return e

    def _expr(self, k, d):
        v = self.v
        if k <= 1:
            return self.name()
        if k <= 3:
            return self.const()
        if k == 4:
            op = self.pick(["+", "-", "*", "/", "//", "%", "**", "<<", ">>", "&", "|", "^"] +
                           (["@"] if v >= (3, 5) else []))
            return "(%s %s %s)" % (self.expr(d + 1), op, self.expr(d + 1))
        if k == 5:
            ops = ["<", "<=", "==", "!=", ">", ">=", "in", "not in", "is", "is not"] + (["<>"] if self.py2 else [])
            n = self.i(1, 3)
            s = self.expr(d + 1)
            for _ in range(n):
                s += " %s %s" % (self.pick(ops), self.expr(d + 1))
            if n > 1:
                self.features.add("chained-compare")
            return "(" + s + ")"
        if k == 6:
            return "(%s %s %s)" % (self.expr(d + 1), self.pick(["and", "or"]), self.expr(d + 1))
        if k == 7:
            return "(%s%s)" % (self.pick(["not ", "-", "+", "~"]), self.expr(d + 1))
        if k == 8:
            if v >= (2, 5):
                return "(%s if %s else %s)" % (self.expr(d + 1), self.expr(d + 1), self.expr(d + 1))
            return self.name()
        if k == 9:
            n = self.i(0, 3)
            args = [self.expr(d + 1) for _ in range(n)]
            if self.chance(3):
                args.append("%s=%s" % (self.pick(["key", "sep", "x"]), self.expr(d + 1)))
            if self.chance(6):
                args.append("*" + self.name())
            if self.chance(6):
                args.append("**" + self.name())
            fn = self.pick(GLOBAL_CALLS + FUNCS)
            return "%s(%s)" % (fn, ", ".join(args))
        if k == 10:
            return "%s.%s" % (self.name(), self.pick(ATTRS))
        if k == 11:
            return "%s[%s]" % (self.name(), self.expr(d + 1))
        if k == 12:
            parts = [self.pick(["", self.expr(d + 1)]) for _ in range(self.i(2, 3))]
            return "%s[%s]" % (self.name(), ":".join(parts))
        if k == 13:
            n = self.i(0, 4)
            return "[" + ", ".join(self.expr(d + 1) for _ in range(n)) + "]"
        if k == 14:
            n = self.i(0, 3)
            return "{" + ", ".join("%s: %s" % (self.expr(d + 1), self.expr(d + 1)) for _ in range(n)) + "}"
        if k == 15:
            n = self.i(1, 3)
            if v >= (2, 7):
                return "{" + ", ".join(self.expr(d + 1) for _ in range(n)) + "}"
            return "set([%s])" % ", ".join(self.expr(d + 1) for _ in range(n))
        if k == 16 and self.chance(3) and v >= (2, 7):
            # the same constant set (and its elements) in several code objects: shared objects, back-references
            self.features.add("shared-frozenset-const")
            return "(%s in {'alpha', 'beta', 7, 2.5} or %s == 'alpha' or %s == 'beta')" % (self.name(), self.name(), self.name())
        if k == 16:
            # membership in a constant set / tuple -> frozenset / tuple constants
            n = self.i(1, 4)
            consts = [self.pick(INT_CONSTS[:8] + ["'a'", "'b'", "None", "1.5"]) for _ in range(n)]
            if v >= (2, 7) and self.chance(2):
                self.features.add("frozenset-const")
                return "(%s in {%s})" % (self.name(), ", ".join(consts))
            return "(%s in (%s,))" % (self.name(), ", ".join(consts))
        if k == 17:
            t, src, cond = self.name(), self.name(), self.expr(d + 2)
            kind = self.i(0, 3)
            tail = (" if %s" % cond) if self.chance(2) else ""
            if self.chance(4):
                tail += " for %s in %s" % (self.pick(["q", "r"]), self.name())
            self.features.add("comprehension")
            if kind == 0:
                return "[%s for %s in %s%s]" % (self.expr(d + 2), t, src, tail)
            if kind == 1 and v >= (2, 7):
                return "{%s for %s in %s%s}" % (self.expr(d + 2), t, src, tail)
            if kind == 2 and v >= (2, 7):
                return "{%s: %s for %s in %s%s}" % (self.expr(d + 2), self.expr(d + 2), t, src, tail)
            return "(%s for %s in %s%s)" % (self.expr(d + 2), t, src, tail)
        if k == 18:
            params = self.pick(["", "p", "p, q=1", "*args", "p, *args, **kw"])
            self.features.add("lambda")
            if params == "" and self.chance(3):
                # a function made and called on the spot, without arguments (MAKE_FUNCTION directly before the call)
                self.features.add("lambda-called-at-once")
                return "(lambda: %s)()" % self.expr(d + 2)
            return "(lambda %s: %s)" % (params, self.expr(d + 2))
        if k == 19 and v >= (3, 6):
            self.features.add("fstring")
            conv = self.pick(["", "!r", "!s", "!a"])
            spec = self.pick(["", ":>10", ":.3f", ":{%s}" % self.name()])
            inner = self.pick([self.name(), "%s + %s" % (self.name(), self.name()), "%s.%s" % (self.name(), self.pick(ATTRS)),
                               "%s[0]" % self.name(), "len(%s)" % self.name()])
            return "f'%s{%s%s%s} and {%s}'" % (self.pick(["", "x=", "pre "]), inner, conv, spec, self.name())
        if k == 20 and v >= (3, 8):
            self.features.add("walrus")
            return "(%s := %s)" % (self.name(), self.expr(d + 1))
        if k == 21 and self.py2:
            return "`%s`" % self.name()
        if k == 22:
            return "%s %% (%s, %s)" % ("'%s-%r'", self.expr(d + 1), self.expr(d + 1))
        return self.name()

    def target(self):
        k = self.i(0, 7)
        if k <= 3:
            return self.name()
        if k == 4:
            return "%s.%s" % (self.name(), self.pick(ATTRS))
        if k == 5:
            return "%s[%s]" % (self.name(), self.expr(2))
        if k == 6:
            return "%s, %s" % (self.name(), self.name())
        if not self.py2:
            return "%s, *%s" % (self.name(), self.name())
        return "(%s, %s)" % (self.name(), self.name())

    # -- statements
    def block(self, depth, ctx, n=None):
        n = n if n is not None else self.i(1, self.size)
        for _ in range(n):
            self.gap()
            self.stmt(depth, ctx)

    def stmt(self, depth, ctx):
        k = self.i(0, 31) if depth < 4 else self.i(0, 9)
        v = self.v
        e = self.emit
        if k <= 3:
            e(depth, "%s = %s" % (self.target(), self.expr()))
        elif k == 4:
            e(depth, "%s %s= %s" % (self.name(), self.pick(["+", "-", "*", "//", "|", "&", "**", ">>"]), self.expr()))
        elif k == 5:
            e(depth, self.expr())
        elif k == 6:
            if self.py2:
                e(depth, self.pick(["print %s", "print %s,", "print >>out, %s"]) % self.expr())
            else:
                e(depth, "print(%s)" % self.expr())
        elif k == 7:
            # multi-line expression: negative line deltas on 3.6+
            e(depth, "%s = %s(" % (self.name(), self.pick(FUNCS)))
            for _ in range(self.i(1, 4)):
                e(depth + 1, self.expr() + ",")
                if self.chance(4):
                    self.lines.extend([""] * self.i(1, 3))
                elif self.chance(8):
                    # the call returns to its first line: a backward step of >= 127 lines
                    self.lines.extend([""] * self.pick([127, 128, 129, 255, 256, 300]))
                    self.features.add("backward-line-step>=127")
            e(depth, ")")
            self.features.add("multiline-expr")
        elif k == 8:
            e(depth, "del %s" % self.pick([self.name(), "%s[%s]" % (self.name(), self.expr(2)),
                                           "%s.%s" % (self.name(), self.pick(ATTRS))]))
        elif k == 9:
            e(depth, "assert %s%s" % (self.expr(), self.pick(["", ", 'msg'"])))
        elif k in (10, 11):
            e(depth, "if %s:" % self.expr())
            self.block(depth + 1, ctx)
            for _ in range(self.i(0, 2)):
                e(depth, "elif %s:" % self.expr())
                self.block(depth + 1, ctx)
            if self.chance(2):
                e(depth, "else:")
                self.block(depth + 1, ctx)
        elif k in (12, 13):
            lctx = dict(ctx, loop=True, fin=False)
            self.features.add("loop")
            if self.exec_safe:
                e(depth, "for %s in range(%d):" % (self.name(), self.i(0, 3)))
            elif ctx.get("async") and self.chance(3) and v >= (3, 5):
                e(depth, "async for %s in %s:" % (self.name(), self.expr()))
                self.features.add("async-for")
            else:
                e(depth, "for %s in %s:" % (self.target() if self.chance(3) else self.name(), self.expr()))
            self.block(depth + 1, lctx)
            if self.chance(4):
                e(depth, "else:")
                self.block(depth + 1, ctx)
        elif k == 14:
            lctx = dict(ctx, loop=True, fin=False)
            self.features.add("loop")
            if self.exec_safe:
                c = self.fresh("cnt")
                e(depth, "%s = 0" % c)
                e(depth, "while %s < %d:" % (c, self.i(0, 3)))
                e(depth + 1, "%s += 1" % c)
            else:
                e(depth, "while %s:" % self.pick([self.expr(), "True", "1"]))
            self.block(depth + 1, lctx)
            if self.chance(4):
                e(depth, "else:")
                self.block(depth + 1, ctx)
        elif k == 15:
            if ctx.get("loop"):
                if self.chance(2):
                    e(depth, "break")
                elif not (ctx.get("fin") and v < (3, 8)):
                    e(depth, "continue")
                else:
                    e(depth, "break")
            else:
                e(depth, "pass")
        elif k in (16, 17):
            self.features.add("try")
            e(depth, "try:")
            self.block(depth + 1, ctx)
            kind = self.i(0, 3)
            if kind in (0, 1, 3):
                for _ in range(self.i(1, 2)):
                    exc = self.pick(EXCS)
                    form = self.i(0, 3)
                    if form == 0:
                        e(depth, "except %s:" % exc)
                    elif form == 1:
                        if v >= (2, 6):
                            e(depth, "except %s as err:" % exc)
                        else:
                            e(depth, "except %s, err:" % exc)
                    elif form == 2:
                        e(depth, "except (%s, %s):" % (exc, self.pick(EXCS)))
                    else:
                        e(depth, "except:")
                        self.block(depth + 1, ctx)
                        break
                    self.block(depth + 1, ctx)
                if self.chance(3):
                    e(depth, "else:")
                    self.block(depth + 1, ctx)
            if kind in (2, 3) and (v >= (2, 5) or kind == 2):
                e(depth, "finally:")
                self.block(depth + 1, dict(ctx, fin=True))
        elif k == 18 and v >= (3, 11) and not ctx.get("loop"):
            self.features.add("except*")
            e(depth, "try:")
            self.block(depth + 1, ctx)
            e(depth, "except* %s as eg:" % self.pick(EXCS))
            self.block(depth + 1, dict(ctx, loop=False))
        elif k == 19 and v >= (2, 6):
            self.features.add("with")
            items = "%s as %s" % (self.expr(2), self.name())
            if self.chance(3) and v >= (2, 7):
                items += ", %s" % self.expr(2)
            if ctx.get("async") and self.chance(2) and v >= (3, 5):
                e(depth, "async with %s:" % items)
            else:
                e(depth, "with %s:" % items)
            self.block(depth + 1, ctx)
        elif k in (20, 21, 22):
            self.funcdef(depth, ctx)
        elif k == 23:
            self.classdef(depth, ctx)
        elif k == 24:
            if ctx.get("func"):
                kind = ctx.get("kind", 0)
                if kind == 3 or (kind == 1 and v < (3, 3)):
                    e(depth, "return")
                else:
                    e(depth, "return %s" % self.pick(["", self.expr()]))
            else:
                e(depth, "pass")
        elif k == 25:
            kind = ctx.get("kind", 0) if ctx.get("func") else 0
            if kind == 1:
                if v >= (3, 3) and self.chance(3):
                    e(depth, "%s = yield from %s" % (self.name(), self.expr()))
                elif v >= (2, 5) and self.chance(2):
                    e(depth, "%s = yield %s" % (self.name(), self.expr()))
                else:
                    e(depth, "yield %s" % self.expr())
                self.features.add("generator")
            elif kind == 2:
                e(depth, self.pick(["%s = await %s" % (self.name(), self.expr()), "await %s" % self.expr()]))
                self.features.add("await")
            elif kind == 3:
                e(depth, self.pick(["yield %s" % self.expr(), "await %s" % self.expr()]))
                self.features.add("async-generator")
            else:
                e(depth, "pass")
        elif k == 26:
            form = self.i(0, 3)
            if form == 0:
                e(depth, "raise %s(%s)" % (self.pick(EXCS), self.expr(2)))
            elif form == 1 and not self.py2:
                e(depth, "raise %s from %s" % (self.pick(EXCS), self.name()))
            elif form == 1:
                e(depth, "raise %s, %s" % (self.pick(EXCS), self.expr(2)))
            else:
                e(depth, "raise %s" % self.pick(EXCS))
        elif k == 27 and not self.exec_safe:
            form = self.i(0, 3)
            if form == 0:
                e(depth, "import %s" % self.pick(["os", "sys", "os.path", "collections as col"]))
            elif form == 1:
                e(depth, "from %s import %s" % (self.pick(["os", "sys", "itertools"]),
                                                self.pick(["path", "argv as av", "chain, count"])))
            elif form == 2 and not ctx.get("func") and not ctx.get("class"):
                e(depth, "from os.path import *")
            else:
                e(depth, "from . import %s" % self.name() if not self.py2 or v >= (2, 5) else "import os")
        elif k == 28 and ctx.get("func"):
            e(depth, "global %s" % self.fresh("gv"))
        elif k == 28 and v >= (3, 12):
            self.features.add("type-alias")
            e(depth, self.pick(["type %s = int", "type %s[T] = list[T]", "type %s[T: int, *Ts] = tuple[T, *Ts]",
                                "type %s[**P] = dict[str, int]"]) % self.fresh("Alias"))
        elif k == 29 and v >= (3, 10) and not ctx.get("fin"):
            self.features.add("match")
            e(depth, "match %s:" % self.name())
            pats = ["0", "'s'", "[p, q]", "[p, *rest]", "{'k': p}", "A(attr=p)", "(1 | 2) as p", "p if p > 1",
                    "None", "[1, 2, *_]", "str() | int()"]
            for _ in range(self.i(1, 3)):
                e(depth + 1, "case %s:" % self.pick(pats))
                self.block(depth + 2, ctx, self.i(1, 2))
            if self.chance(2):
                e(depth + 1, "case _:")
                self.block(depth + 2, ctx, 1)
        elif k == 30 and self.py2 and not ctx.get("func"):
            e(depth, "exec %s in %s" % (self.name(), self.name()))
        elif k == 31 and self.bulk:
            self.many(depth)
        else:
            e(depth, "pass")

    def many(self, depth):
        """bulk shapes: > 255 names / constants, long bodies (offsets > 255, EXTENDED_ARG)"""
        form = self.i(0, 3)
        if form == 0:
            n = self.pick([40, 130, 260, 300])
            base = self.i(1000, 5000)
            for j in range(n):
                self.emit(depth, "%s%d = %d" % (self.fresh("w"), j, base + j))
            self.features.add("many-names/consts:%d" % n)
        elif form == 1:
            n = self.pick([30, 100, 260])
            self.emit(depth, "%s = [%s]" % (self.name(), ", ".join("%s, %d" % (self.name(), 7000 + j) for j in range(n))))
            self.features.add("long-expression")
        elif form == 2:
            n = self.pick([20, 90, 200])
            self.emit(depth, "%s = {%s}" % (self.name(), ", ".join("'k%d': %d" % (j, j) for j in range(n))))
            self.features.add("big-dict-display")
        else:
            n = self.pick([10, 60])
            for j in range(n):
                self.emit(depth, "%s.%s = %s(%s, %d)" % (self.name(), self.pick(ATTRS), self.pick(FUNCS), self.name(), j))
            self.features.add("long-body")

    def params(self):
        v = self.v
        parts = []
        names = ["p", "q", "r", "s"]
        n = self.i(0, 3)
        used = names[:n]
        if v >= (3, 8) and n >= 2 and self.chance(3):
            parts = [used[0], "/"] + used[1:]
            self.features.add("posonly")
        else:
            parts = list(used)
        if self.chance(3) and n:
            parts[-1] = "%s=%s" % (used[-1], self.const())
        star = False
        if self.chance(4):
            parts.append("*args")
            star = True
        if not self.py2 and self.chance(4):
            if not star:
                parts.append("*")
            parts.append("kwo=%s" % self.const())
            self.features.add("kwonly")
        if self.chance(5):
            parts.append("**kw")
        if not self.py2 and self.chance(5) and parts and "=" not in parts[0] and parts[0] not in ("/", "*"):
            parts[0] = parts[0] + ": int"
        return ", ".join(parts), used

    def funcdef(self, depth, ctx):
        v = self.v
        name = self.pick(FUNCS)
        params, used = self.params()
        kind = self.pick([0, 0, 0, 1, 1, 2, 3])
        if kind == 2 and v < (3, 5):
            kind = 0
        if kind == 3 and v < (3, 6):
            kind = 1
        is_async = kind in (2, 3)
        self.features.add("def")
        for _ in range(self.i(0, 2) if self.chance(4) else 0):
            if v >= (2, 4):
                self.emit(depth, "@%s" % self.pick(["staticmethod", "helper", "compute(1)"]))
                self.features.add("decorator")
        ret = " -> int" if (not self.py2 and self.chance(6)) else ""
        tp = ""
        if v >= (3, 12) and self.chance(5):
            # PEP 695: the compiler adds hidden locals (.defaults, .kwdefaults, .type_params) around generic functions
            tp = self.pick(["[T]", "[T: int]", "[T, *Ts]", "[T, **P]", "[T: (int, str)]"] + (["[T = int]"] if v >= (3, 13) else []))
            self.features.add("pep695-def")
        self.emit(depth, "%sdef %s%s(%s)%s:" % ("async " if is_async else "", name, tp, params, ret))
        if self.chance(4):
            self.emit(depth + 1, '"""doc %s"""' % name)
        fctx = {"func": True, "async": is_async, "loop": False, "fin": False, "kind": kind}
        if kind == 1:
            self.emit(depth + 1, "yield %s" % self.expr(2))
        elif kind == 3:
            self.emit(depth + 1, "yield %s" % self.expr(2))
        closure = self.chance(3)
        if closure and used and (v >= (2, 2)):
            # a parameter that is also a cell variable
            self.features.add("closure-param-cell")
            inner = self.fresh("inner")
            self.emit(depth + 1, "def %s(t):" % inner)
            if not self.py2 and self.chance(2):
                self.emit(depth + 2, "nonlocal %s" % used[0])
                self.emit(depth + 2, "%s = t" % used[0])
            self.emit(depth + 2, "return %s + t%s" % (used[0], (" + " + used[-1]) if len(used) > 1 else ""))
        self.block(depth + 1, fctx)
        if closure and used and (kind in (0, 2) or (kind == 1 and v >= (3, 3))):
            self.emit(depth + 1, "return %s" % inner)

    def classdef(self, depth, ctx):
        name = self.pick(CLASSES)
        base = self.pick(["", "(object)", "(Base)", "(A, B)"] + (["(Base, metaclass=type)"] if not self.py2 else []))
        self.features.add("class")
        if self.chance(5):
            self.emit(depth, "@%s" % self.pick(["helper", "compute(2)"]))
        if self.v >= (3, 12) and self.chance(5):
            name += self.pick(["[T]", "[T: int]", "[T, *Ts]"])
            self.features.add("pep695-class")
        self.emit(depth, "class %s%s:" % (name, base))
        if self.chance(3):
            self.emit(depth + 1, '"""class doc"""')
        self.emit(depth + 1, "%s = %s" % (self.pick(ATTRS), self.const()))
        for _ in range(self.i(1, 2)):
            m = self.pick(["__init__", "method", "run", "__repr__"])
            if m in ("method", "run") and self.v >= (2, 4) and self.chance(3):
                self.emit(depth + 1, "@%s" % self.pick(["staticmethod", "classmethod"]))
                self.features.add("static/classmethod")
            self.emit(depth + 1, "def %s(self, p=None):" % m)
            if not self.py2 and self.chance(2):
                self.emit(depth + 2, "super().%s()" % m)
                self.features.add("super()")
            elif self.chance(3):
                self.emit(depth + 2, "super(%s, self).%s()" % (name.split("[")[0], m))
            self.block(depth + 2, {"func": True, "loop": False, "class": False, "fin": False}, self.i(1, 2))

    def module(self):
        future = not self.py2 and self.v >= (3, 7) and self.chance(8)
        if future:
            self.emit(0, "from __future__ import annotations")
        if self.exec_safe:
            # bind every name programs use, so execution mostly proceeds
            self.emit(0, "a = 1; b = 2; c = [1, 2, 3]; d = {'k': 1}; e = 'txt'; x = 3; y = 4.5; z = (1, 2)")
            self.emit(0, "n = 0; m = 5; k = 'k'; items = [3, 1, 2]; acc = []; res = None; val = 7; tmp = 0")
            self.emit(0, "def f(*a, **k): return len(a)")
            self.emit(0, "g = h = helper = compute = walk = f")
            self.emit(0, "class Base(object): attr = 1")
            self.emit(0, "A = B = Node = Base")
        if self.chance(4):
            self.emit(0, '"""module doc"""')
        self.block(0, {"func": False, "loop": False, "fin": False}, self.i(1, self.size + 2))
        return "\n".join(self.lines) + "\n"


@st.composite
def programs(draw, version, exec_safe=False, size=4, bulk=True):
    g = Gen(draw, version, exec_safe, size, bulk)
    src = g.module()
    return src


def features_of(src):
    """Cheap syntactic classification of a generated / real source text."""
    f = set()
    for kw, tag in (("lambda", "lambda"), ("yield", "generator"), ("async ", "async"), ("await ", "async"),
                    ("try:", "try"), ("with ", "with"), ("class ", "class"), ("while ", "loop"), ("for ", "loop"),
                    ("match ", "match"), ("except*", "except*"), ("nonlocal", "nonlocal"), (":=", "walrus")):
        if kw in src:
            f.add(tag)
    return f
