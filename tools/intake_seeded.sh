#!/bin/bash
# usage: tools/intake_seeded.sh /tmp/wtNN <ID> <name>
# Copies a sub-agent's seeded change into seeded/<name>/ and confirms it: demo passes on the clean tree, fails with the
# patch, and the repository's test suite gives the same result with the patch applied.
cd "$(dirname "$0")/.."
wt=$1; id=$2; name=$3
src=$wt/out/$id
[ -f $src/patch.diff ] || { echo "no patch in $src"; exit 2; }
mkdir -p seeded/$name
cp $src/patch.diff $src/meta.json seeded/$name/
# demos refer to the library either by the worktree path or relative to their own location (<lib>/out/<ID>/demo.py)
sed -e "s#$wt/out/$id#$PWD/seeded/$name#g" -e "s#$wt#/repo#g" \
    -e 's#os.path.dirname(os.path.dirname(os.path.dirname(os.path.abspath(__file__))))#os.environ.get("XDIS_UNDER_TEST", "/repo")#g' \
    $src/demo.py > seeded/$name/demo.py
[ -n "$(git -C /repo status --porcelain --untracked-files=no)" ] && { echo "/repo not clean"; exit 2; }
PYTHONPATH=/repo /venv/bin/python seeded/$name/demo.py >/dev/null 2>&1; clean=$?
git -C /repo apply $PWD/seeded/$name/patch.diff || { echo "patch does not apply"; exit 2; }
PYTHONPATH=/repo /venv/bin/python seeded/$name/demo.py >/tmp/demo_out.txt 2>&1; patched=$?
tests=$(cd /repo && /venv/bin/python -m pytest -q -p no:cacheprovider --timeout=900 --continue-on-collection-errors 2>&1 | tail -1)
git -C /repo checkout -- .
echo "$name: demo clean=$clean patched=$patched tests='$tests'"
python3 - "$name" "$clean" "$patched" "$tests" <<'PY'
import json,sys
n,clean,patched,tests=sys.argv[1:5]
p="seeded/%s/meta.json"%n
m=json.load(open(p))
m["confirmed"]={"demo_exit_clean_tree":int(clean),"demo_exit_with_patch":int(patched),"repo_tests_with_patch":tests.strip(),
  "ran":"PYTHONPATH=/repo /venv/bin/python seeded/%s/demo.py on the clean tree and after `git -C /repo apply`; pytest baseline command with the patch applied"%n}
json.dump(m,open(p,"w"),indent=1)
PY
