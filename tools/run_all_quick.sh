#!/bin/bash
# usage: tools/run_all_quick.sh [seed...]   - every quick check on the current tree; prints one line per check
cd "$(dirname "$0")/.."
for s in "${@:-1}"; do
  for i in $(seq -w 1 20); do
    out=$(VERIF_SEED=$s ./check C$i quick 2>&1); rc=$?
    echo "rc=$rc $(echo "$out" | grep -a "^C$i quick" | tail -1)"
    [ $rc -ne 0 ] && echo "$out" | grep -a "sig=\|VIOLATION\|Error\|error" | head -5
  done
done
