#!/bin/bash
# usage: tools/run_seeded_par.sh [-j N] seeded/<id>...   |   tools/run_seeded_par.sh [-j N] --all
# Like run_seeded.sh, but each change is applied to its own scratch copy of /repo under /dev/shm (VERIF_REPO points
# the check at it), so /repo is never touched and several changes run side by side.  Output: one line per change.
cd "$(dirname "$0")/.."
J=3
if [ "$1" == "-j" ]; then J=$2; shift 2; fi
if [ "$1" == "--all" ]; then set -- $(for d in seeded/*/; do [ -f "$d/meta.json" ] && echo "${d%/}"; done); fi
one() {
  d=$1
  name=$(basename $d)
  prop=$(python3 -c "import json,sys; print(json.load(open('$d/meta.json'))['property'])")
  scratch=/dev/shm/xdmut-$name
  rm -rf $scratch; mkdir -p $scratch/out
  git -C /repo archive --format=tar HEAD | tar -x -C $scratch --one-top-level=repo
  if ! (cd $scratch/repo && git apply --unsafe-paths "$PWD/../../../$d/patch.diff" 2>/dev/null || patch -p1 -s < "/verif/$d/patch.diff"); then
    echo "$d  check=$prop  PATCH-DOES-NOT-APPLY"; rm -rf $scratch; return
  fi
  for c in $prop $EXTRA_CHECKS; do
    out=$(VF_NO_MINIMISE=1 VERIF_REPO=$scratch/repo VF_OUT_DIR=$scratch/out VERIF_SEED=${VERIF_SEED:-1} ./check $c quick 2>&1 | grep -a "VIOLATION\|quick seed\|HARNESS\|sig=" | head -6)
    if echo "$out" | grep -q VIOLATION; then verdict=CAUGHT; elif echo "$out" | grep -q HARNESS; then verdict=HARNESS-ERROR; else verdict=missed; fi
    echo "$d  check=$c  $verdict  :: $(echo "$out" | grep -a 'sig=' | head -1 | cut -c1-160)"
  done
  rm -rf $scratch
}
export -f one
printf "%s\n" "$@" | xargs -P $J -I{} bash -c 'one {}'
