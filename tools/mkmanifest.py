#!/usr/bin/env python3
"""Regenerate MANIFEST.json from the per-property descriptions below."""
import json
import os

HERE = os.path.dirname(os.path.dirname(os.path.abspath(__file__)))

# id -> (technique, level text, level note, design ref)
CHECKS = {
    "C10": ("Hypothesis-generated values x sharing plans x two encoders (real marshal.dumps of 9 CPythons, "
            "choice-driven reference encoder); differential against the producing CPython's marshal.loads",
            "No counterexample among generated (value, sharing plan, encoding) cases: every marshal type code, "
            "FLAG_REF on any kind, py2 interned/stringref, text/binary floats, 2.1-3.13 code layouts; the check "
            "reports how many distinct non-trivial payloads it judged. Exploration, not proof.",
            "CPython marshal.loads (2.7, 3.6-3.13) is ground truth; 2.1-2.6 and 3.0-3.5 judged through the "
            "layout-identical 2.7 / 3.7 interpreters; refmarshal is self-checked against CPython on every case",
            "DESIGN.md §4 C10"),
}

NOT_YET = {}

ALL = ["C%02d" % i for i in range(1, 21)]


def main():
    checks = []
    for pid in ALL:
        if pid not in CHECKS:
            continue
        tech, text, note, ref = CHECKS[pid]
        checks.append({
            "property_id": pid,
            "quick_cmd": "./check %s quick" % pid,
            "thorough_cmd": "./check %s thorough" % pid,
            "evidence_file": "evidence/%s.json" % pid,
            "replay_cmd_template": "./check %s --replay {path}" % pid,
            "engine": "vf",
            "level_claimed": {"category": "exploration", "text": text, "design_ref": ref},
            "level_note": note,
            "technique": tech,
        })
    na = [{"property_id": pid, "reason": NOT_YET.get(pid, "check not built yet in this session (planned, see DESIGN.md §4)")}
          for pid in ALL if pid not in CHECKS]
    m = {
        "version": 1,
        "setup_cmd": "./setup.sh",
        "hooks": {
            "guard": "XDIS_VERIF",
            "enable": "none needed: every observation point is public API, stdout capture or sys.addaudithook; "
                      "checks import /repo's working tree directly (pure Python, PYTHONDONTWRITEBYTECODE=1)",
            "baseline_off_cmd": "cd /repo && /venv/bin/python -m pytest -ra -q -p no:cacheprovider --timeout=900 "
                                "--continue-on-collection-errors",
            "source_commits": [],
            "add_only": True,
        },
        "engines": [{
            "name": "vf", "path": "vf/",
            "serves_properties": [c["property_id"] for c in checks],
            "kind_free_text": "Hypothesis-driven differential harness: driver on /venv (3.12) + persistent worker "
                              "processes on the nine pyenv CPythons (reference oracles and xdis hosts)",
        }],
        "checks": checks,
        "not_applicable": na,
        "notes": "Exit codes: 0 held / 1 VIOLATION / 2 harness error. Known findings: known_findings.json. "
                 "Replays: replays/ (regress/ = fixed defects, known/ = open findings).",
    }
    json.dump(m, open(os.path.join(HERE, "MANIFEST.json"), "w"), indent=1)
    print("wrote MANIFEST.json with %d checks, %d not_applicable" % (len(checks), len(na)))


if __name__ == "__main__":
    main()
