#!/usr/bin/env python3
"""Regenerate MANIFEST.json from the per-property descriptions below."""
import json
import os

HERE = os.path.dirname(os.path.dirname(os.path.abspath(__file__)))

# id -> (technique, level text, level note, design ref)
CHECKS = {
    "C10": ("Hypothesis-generated values x sharing plans x two encoders (real marshal.dumps of 9 CPythons, "
            "choice-driven reference encoder); differential against the producing CPython's marshal.loads",
            "No counterexample among generated (value, sharing plan, encoding) cases: every marshal type code, "
            "FLAG_REF on any kind, py2 interned/stringref, text/binary floats, 2.1-3.13 code layouts; the check "
            "reports how many distinct non-trivial payloads it judged. Exploration, not proof.",
            "CPython marshal.loads (2.7, 3.6-3.13) is ground truth; 2.1-2.6 and 3.0-3.5 judged through the "
            "layout-identical 2.7 / 3.7 interpreters; refmarshal is self-checked against CPython on every case",
            "DESIGN.md §4 C10"),
    "C01": ("Hypothesis grammar programs + sampled stdlib files compiled by 9 real CPythons; differential of the "
            "canonical code tree against the producing interpreter's marshal.loads; the same payloads under PyPy's magic; "
            "2.7/3.7 trees re-encoded by an independent encoder in the 2.3-2.6 / 3.0-3.5 formats; all corpus files via the "
            "layout-identical interpreter",
            "No field/constant disagreement and exact payload consumption on generated programs and stdlib "
            "samples for 2.7 and 3.6-3.13 (portable unmarshaller). Exploration.",
            "producing CPython's marshal is ground truth; versions without an interpreter are covered by C10's "
            "cousin-interpreter oracle and the corpus",
            "DESIGN.md §4 C01"),
    "C02": ("generated programs / stdlib samples / assembled code objects (0-3 EXTENDED_ARG prefixes, 66 KB NOP runs); "
            "intrinsic tiling oracle + differential against each CPython's dis; 2.3-2.6/3.0-3.5 byte code assembled and "
            "compared with a transcribed fetch loop; corpus internal consistency (two decoders, no undefined opcode); "
            "LineOffsetInfo vs Bytecode",
            "Instruction streams of every code object of generated programs tile exactly and agree per offset "
            "(opcode, name, folded operand) with the producing CPython's dis. Exploration.",
            "CPython dis is ground truth; code objects above the size cap are skipped (quadratic iterator)",
            "DESIGN.md §4 C02"),
    "C03": ("generated programs biased to closures / comprehensions / >255 names; differential of argval against dis",
            "Every table-indexed operand (const/name/local/free/compare) of generated programs resolves to the "
            "value CPython's dis resolves. Exploration.",
            "CPython dis argval is ground truth; comparison operators compared by cmp_op index",
            "DESIGN.md §4 C03"),
    "C04": ("generated programs with loops/generators/async/try; differential of jump argval, findlabels set and "
            "is_jump_target against dis; structural oracle 'targets are instruction starts'; assembled jumps (incl. to "
            "len(co_code) and across > 2^16 bytes) for every version 2.3-3.13; drawn exception tables",
            "Jump targets, label sets and is_jump_target of generated programs agree with CPython "
            "(definition: labels plus 3.11+ handler targets). Exploration.",
            "CPython dis is ground truth; 2.7 labels from a ceval-faithful transcription",
            "DESIGN.md §4 C04"),
    "C05": ("generated programs with drawn line gaps (>=128, >=256, decreasing); differential of findlinestarts and "
            "starts_line against dis.findlinestarts; drawn lnotab / 3.10 / 3.11+ tables; every opcode table's findlinestarts "
            "(1.5-3.9, PyPy) against its lnotab family's interpreter; host-side native/portable cases; metamorphic "
            "co_firstlineno shift; offset2line against a linear-scan model",
            "Line starts of generated programs equal CPython's for lnotab (unsigned/signed), 3.10 and 3.11+ "
            "tables. Exploration.",
            "CPython dis.findlinestarts is ground truth",
            "DESIGN.md §4 C05"),
    "C17": ("generated 3.11-3.13 programs; differential of exception entries, co_positions and co_lines per code unit",
            "Exception-table entries, per-code-unit positions (co_positions and parse_positions) and lines agree "
            "with CPython 3.11/3.12/3.13 on generated programs. Exploration.",
            "co_positions()/co_lines()/dis._parse_exception_table are ground truth",
            "DESIGN.md §4 C17"),
    "C08": ("exhaustive enumeration (65536 integers, every CPython registry row, every xdis table row and release "
            "name, every installed interpreter) plus Hypothesis 4-byte/int/release draws",
            "Magic tables agree with CPython's own registry and with the 9 installed interpreters; "
            "int2magic/magic2int inverse on all 16-bit values (exhaustive).",
            "registry comment block of importlib/_bootstrap_external.py is ground truth; of the non-final release levels "
            "only release candidates are asked of sysinfo2magic (the magic is frozen before rc1); a file's name must not "
            "change the version its magic stands for",
            "DESIGN.md §4 C08"),
    "C09": ("exhaustive enumeration of all opcode tables x 256 opcodes x 7 categories: differential against the "
            "opcode module of 9 CPythons, intrinsic invariants for all tables, corpus-validity decoding, Hypothesis "
            "probes of the make_std_api facade",
            "Every table with a matching interpreter equals that interpreter's opcode module (exhaustive); tables "
            "without one are internally consistent and decode all historical corpus files structurally.",
            "opcode module of the matching CPython is ground truth; for 1.0-2.6, 3.0-3.5, PyPy: family / neighbour "
            "consistency of same-named opcodes and a table of ~60 documented opcode introductions / removals",
            "DESIGN.md §4 C09"),
    "C15": ("enumeration of (opcode, operand) per version 3.6-3.13 (0..300 quick, 0..65535 thorough, EXTENDED_ARG "
            "boundaries) + Hypothesis draws; differential against dis.stack_effect",
            "xstack_effect and make_std_api().stack_effect equal dis.stack_effect on every enumerated pair "
            "CPython accepts; exhaustive over 0..65535 in the thorough tier.",
            "dis.stack_effect of the matching CPython is ground truth; operands >= 2^30 excluded (C int overflow "
            "in the reference); the sweep is recomputed inside hosts 3.8-3.13 and must not depend on the host; 3.0-3.5 "
            "(no interpreter): same-named opcodes judged by CPython 3.6, the few with changed meaning excepted",
            "DESIGN.md §4 C15"),
    "C06": ("Hypothesis-generated headers (every release magic x 32-bit flag word x 32/64-bit fields) with marker "
            "payloads + real py_compile output in all PEP 552 modes; oracle = format model validated against py_compile",
            "load_module's 7-tuple and the -F header text show exactly the fields the version's format stores, "
            "and the code object is read right after the header, on generated headers for 1.0-3.13 and PyPy magics.",
            "PEP 552 / importlib define the header; flag words with unknown bits may be rejected",
            "DESIGN.md §4 C06"),
    "C14": ("Hypothesis G-VALUE plain values evaluated inside host workers 3.8-3.13: round-trip differential "
            "xdis.marsh <-> the host's built-in marshal (dumps, loads, load)",
            "marshal.loads(xdis.marsh.dumps(v)) == v and xdis.marsh.loads/load(marshal.dumps(v, 0|1)) == v by kind "
            "and value on generated values, on all six hosts.",
            "host marshal is ground truth; NaN compared by NaN-ness (text floats)",
            "DESIGN.md §4 C14"),
    "C16": ("generated programs compiled on each host 3.8-3.13; round trip native -> codeType2Portable -> to_native "
            "compared attribute by attribute (+ co_lines(), co_positions()); replace() model check",
            "Every code object of generated programs survives the conversion unchanged on all six hosts, the "
            "portable class matches the host version and replace() copies without mutating.",
            "attribute-wise equality (code.__eq__ ignores line tables on some versions)",
            "DESIGN.md §4 C16"),
    "C19": ("Hypothesis-generated {offset: line} mappings (gaps around 127/255/256, decreasing lines) frozen by "
            "Code2/Code3/Code38/Code310; round-trip oracle through xdis's decoder and the matching CPython's "
            "dis.findlinestarts on a native code object carrying the frozen table",
            "freeze() output decodes back to the mapping with xdis and with CPython 2.7/3.6-3.10 on generated "
            "mappings incl. continuation entries.",
            "mappings start at offset 0 (Code310: or later) with distinct consecutive lines; Code2/Code3 only non-decreasing lines",
            "DESIGN.md §4 C19"),
    "C13": ("generated terminating programs compiled by 9 real CPythons, loaded and re-written by xdis (portable path "
            "on 3.12, native path on the target's own interpreter); round-trip differential through the target's "
            "marshal.loads, xdis re-load, and execution of both files under the target interpreter",
            "A rewritten file loads to the same code tree in the target CPython, re-loads identically in xdis and "
            "runs identically (exit status, stdout, last stderr line) on generated programs for 2.7 and 3.6-3.13.",
            "target CPython is ground truth; programs are deterministic; object addresses in output are normalised; "
            "corpus files of 2.3-2.6 / 3.0-3.5 are rewritten, read by the layout cousin and scanned for type codes the "
            "target's marshal lacks; hand-built header integers",
            "DESIGN.md §4 C13"),
    "C12": ("generated programs, stdlib samples (9 CPythons) and all corpus files x six formats; totality oracle, "
            "parse-back of classic/bytes listings against the instruction stream, stdout capture, pydisasm subprocess",
            "Every format completes; classic/bytes listings parse back one-to-one to the instruction streams "
            "(offset, opname, operand, '>>', line number); nothing leaks to stdout; pydisasm exits 0 with the same text.",
            "the stream itself is C02-C05's subject; pre-2.3 line-number column (SET_LINENO driven) not compared",
            "DESIGN.md §4 C12"),
    "C07": ("metamorphic differential: the same generated / stdlib / corpus file decoded inside worker processes of "
            "hosts 3.8-3.13 and by both routes (native marshal fast path vs portable unmarshaller) on the file's own host",
            "Canonical code tree, instruction data and normalised classic listing are identical across drawn host "
            "pairs and across native/portable routes, on generated programs, stdlib samples and corpus files.",
            "normalised: addresses, host banner, code-object repr spelling, element order in set reprs",
            "DESIGN.md §4 C07"),
    "C20": ("generated terminating programs executed inside host workers 3.8-3.13 to materialise functions, methods, "
            "classes, generators, coroutines, async generators, code and source strings; differential of every "
            "xdis.std function against the host's dis namesake (with drawn first_line); make_std_api(v) on foreign "
            "hosts compared with v's own CPython dis dump",
            "xdis.std accepts what dis accepts and returns the same instruction fields, labels, line starts and "
            "tables on generated objects on all six hosts; make_std_api(v) reproduces v's dis data for 2.7, 3.6-3.13.",
            "host dis is ground truth; CACHE entries filtered; 3.13 exception-range labels follow C04's definition",
            "DESIGN.md §4 C20"),
    "C18": ("Hypothesis RuleBasedStateMachine over public operations (load_module, disassemble_file x 6 formats, "
            "get_opcode, make_std_api + query, Bytecode iteration, marsh.dumps/loads) on a pool of corpus files of every "
            "version; per-step invariant against the same operation done first in a pristine (forked / new) process",
            "After every step of generated histories the result equals the fresh-process result, a repeat gives the "
            "same result and the digests of all opcode tables are unchanged.",
            "exceptions are results (type + message); addresses normalised; set element order not compared",
            "DESIGN.md §4 C18"),
    "C11": ("systematic fault enumeration (every prefix / single-byte substitution of small valid files of every "
            "version), Hypothesis structural mutations, adversarial marshal structures with lying length/reference "
            "fields, and an atheris (libFuzzer) coverage-guided campaign; oracle inside the target: outcome in "
            "{7-tuple, ImportError}, audit-hook events, CPU-time and tracemalloc bounds",
            "On all explored hostile inputs load_module returns or raises ImportError promptly, without forbidden "
            "audit events and within the memory bound - except the listed known findings of the built-in-marshal "
            "fast path for files carrying the host's own magic.",
            "stderr output allowed; CPU bound 2 s (<= 64 KiB) / 20 s with triple confirmation; memory bound sampled 1 in 16",
            "DESIGN.md §4 C11"),
}

NOT_YET = {}

ALL = ["C%02d" % i for i in range(1, 21)]


def main():
    checks = []
    for pid in ALL:
        if pid not in CHECKS:
            continue
        tech, text, note, ref = CHECKS[pid]
        checks.append({
            "property_id": pid,
            "quick_cmd": "./check %s quick" % pid,
            "thorough_cmd": "./check %s thorough" % pid,
            "evidence_file": "evidence/%s.json" % pid,
            "replay_cmd_template": "./check %s --replay {path}" % pid,
            "engine": "vf",
            "level_claimed": {"category": "exploration", "text": text, "design_ref": ref},
            "level_note": note,
            "technique": tech,
        })
    na = [{"property_id": pid, "reason": NOT_YET.get(pid, "check not built yet in this session (planned, see DESIGN.md §4)")}
          for pid in ALL if pid not in CHECKS]
    m = {
        "version": 1,
        "setup_cmd": "./setup.sh",
        "hooks": {
            "guard": "XDIS_VERIF",
            "enable": "none needed: every observation point is public API, stdout capture or sys.addaudithook; "
                      "checks import /repo's working tree directly (pure Python, PYTHONDONTWRITEBYTECODE=1)",
            "baseline_off_cmd": "cd /repo && /venv/bin/python -m pytest -ra -q -p no:cacheprovider --timeout=900 "
                                "--continue-on-collection-errors",
            "source_commits": [],
            "add_only": True,
        },
        "engines": [{
            "name": "vf", "path": "vf/",
            "serves_properties": [c["property_id"] for c in checks],
            "kind_free_text": "Hypothesis-driven differential harness: driver on /venv (3.12) + persistent worker "
                              "processes on the nine pyenv CPythons (reference oracles and xdis hosts)",
        }],
        "checks": checks,
        "not_applicable": na,
        "notes": "Exit codes: 0 held / 1 VIOLATION / 2 harness error. Known findings: known_findings.json. "
                 "Replays: replays/ (regress/ = fixed defects, known/ = open findings).",
    }
    json.dump(m, open(os.path.join(HERE, "MANIFEST.json"), "w"), indent=1)
    print("wrote MANIFEST.json with %d checks, %d not_applicable" % (len(checks), len(na)))


if __name__ == "__main__":
    main()
