#!/usr/bin/env python3
"""Write the sub-agent prompts for a further round of seeded changes: /tmp/prompt_r<N>_<k>.txt for k = 01..10,
two properties per agent, two changes per property.  The prompt carries only property texts (/tmp/prop_<ID>.txt,
extracted from properties.jsonl) and one-line summaries of the changes already known - nothing about /verif."""
import glob
import json
import os
import sys

rnd = int(sys.argv[1])
letters = {2: "ab", 3: "cd", 4: "ef", 5: "gh", 6: "ij", 7: "kl"}[rnd]
root = os.path.join(os.path.dirname(os.path.abspath(__file__)), "..")
props = [json.loads(l) for l in open(os.path.join(root, "properties.jsonl")) if l.strip()]
ids = [p["id"] for p in props]
for p in props:
    with open("/tmp/prop_%s.txt" % p["id"], "w") as f:
        f.write("Property %s: %s\n\n" % (p["id"], p.get("title", "")))
        for k in ("statement", "quantified_over", "why_tests_cannot_settle", "observe_at"):
            if k in p:
                f.write("%s: %s\n\n" % (k.replace("_", " ").capitalize(), p[k] if isinstance(p[k], str) else json.dumps(p[k], indent=1)))
        if "code_anchors" in p:
            f.write("Code anchors: %s\n" % json.dumps(p["code_anchors"], indent=1))
known = {}
for m in sorted(glob.glob(os.path.join(root, "seeded", "*", "meta.json"))):
    d = json.load(open(m))
    known.setdefault(d["property"], []).append(" ".join(d.get("summary", "").split())[:230])
pairs = [(ids[i], ids[i + 10]) for i in range(10)]
for k, (a, b) in enumerate(pairs, 1):
    wt = "/tmp/wt%02d" % k
    names = ["%s%s" % (a, letters[0]), "%s%s" % (a, letters[1]), "%s%s" % (b, letters[0]), "%s%s" % (b, letters[1])]
    txt = TEMPLATE = """You are helping test a verification harness for the Python library rocky/python-xdis (cross-version Python bytecode loader/disassembler/writer). Work ONLY inside the git worktree {wt} (a checkout of the library). Do not read or touch /verif or /repo. Python interpreters: /venv/bin/python (3.12, has pytest) and CPythons under /root/.pyenv/versions/{{2.7.18,3.6.15,3.7.16,3.8.18,3.9.18,3.10.13,3.11.7,3.12.1,3.13.0}}/bin/python (ground truth for their versions; xdis imports on 3.8-3.13 with PYTHONPATH={wt}). Sample bytecode files of many versions (1.0 ... 3.12, PyPy) are under {wt}/test/bytecode_*. No network.

This is round {rnd}. For EACH of the two properties below produce TWO further realistic code changes ("seeded defects", four in total) to the library source under {wt}/xdis that BREAK the property while the library still imports and the existing test suite passes exactly as before (run: `cd {wt} && /venv/bin/python -m pytest -q -p no:cacheprovider --timeout=900 --continue-on-collection-errors`; unmodified tree: "7 failed, 39 passed, 1 skipped, 1 error"; the same 39 tests must pass, no per-test outcome may change).

Changes made in the earlier rounds (all of these are already known - do something DIFFERENT: another function, another file, another mechanism, another version, another observable of the property):
{a}:
{ka}
{b}:
{kb}

Aim for changes that are HARD to detect by automated differential testing against the real CPythons and by fuzzing: they should need something quite specific to manifest - e.g. a bytecode version for which no interpreter exists any more (1.0-1.6, 2.0-2.6, 3.0-3.5, PyPy variants) and that only the sample files under test/bytecode_* or hand-built inputs exercise; a rare opcode / operand magnitude / constant encoding; a particular host interpreter version; a multi-step sequence of calls; an interaction of two call sites that each look fine alone; a boundary value; an observable of the property that is rarely looked at; an API entry point that is rarely used. They must still be real violations of the property text as written, demonstrable by a program. Avoid changes that break import, raise on every input, or alter what the 3.12-host test suite checks. Keep each change small (a few lines) and plausible as something a maintainer could commit by mistake (a refactoring, an optimisation, a "clean-up", a port to a newer Python).

Property texts are in /tmp/prop_{a}.txt and /tmp/prop_{b}.txt - read them carefully and make sure each change violates the STATEMENT there.

Procedure for each change (name them {n0}, {n1}, {n2}, {n3}):
1. Make the change in {wt}.
2. Write {wt}/out/<NAME>/demo.py (create the directory): exits 0 on the unmodified library, non-zero (with a message saying what is wrong) on the modified one; runnable as `PYTHONPATH={wt} /venv/bin/python {wt}/out/<NAME>/demo.py`. It may spawn other interpreters from /root/.pyenv; refer to the library ONLY through the literal path {wt} or the PYTHONPATH environment variable (do not compute it from __file__, and when spawning another interpreter pass PYTHONPATH={wt} explicitly). Verify both behaviours yourself (`git diff -- xdis > p; git checkout -- xdis; run; git apply p; run`).
3. Confirm the existing test suite result is unchanged with the change applied.
4. Save `git diff -- xdis > out/<NAME>/patch.diff` and write out/<NAME>/meta.json with keys: property (the ID, e.g. "{a}"), summary (what was changed), needs (what specific input/sequence/version/host is needed for it to manifest), files_touched.
5. `git checkout -- xdis` before the next change.

Finish by replying with a short summary of the four changes and confirmation that demos and test-suite checks were run.
""".format(wt=wt, rnd=rnd, a=a, b=b, ka="\n".join("- " + s for s in known.get(a, [])), kb="\n".join("- " + s for s in known.get(b, [])),
           n0=names[0], n1=names[1], n2=names[2], n3=names[3])
    open("/tmp/prompt_r%d_%02d.txt" % (rnd, k), "w").write(txt)
print("wrote 10 prompts for round %d" % rnd)
