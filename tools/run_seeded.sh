#!/bin/bash
# usage: tools/run_seeded.sh seeded/<id> [CHECK_ID ...]   |   tools/run_seeded.sh --all
# Applies a seeded change to /repo, runs the quick check(s) against it, and reverts /repo straight afterwards.
cd "$(dirname "$0")/.."
run_one() {
  d=$1; shift
  prop=$(python3 -c "import json,sys; print(json.load(open('$d/meta.json'))['property'])")
  checks="$@"; [ -z "$checks" ] && checks=$prop
  if [ -n "$(git -C /repo status --porcelain --untracked-files=no)" ]; then echo "refusing: /repo has local changes"; exit 2; fi
  if ! git -C /repo apply "$PWD/$d/patch.diff"; then echo "$d: patch does not apply"; return; fi
  for c in $checks; do
    out=$(VERIF_SEED=${VERIF_SEED:-1} ./check $c quick 2>&1 | grep -a "VIOLATION\|quick seed\|HARNESS" | head -4)
    if echo "$out" | grep -q VIOLATION; then verdict=CAUGHT; elif echo "$out" | grep -q HARNESS; then verdict=HARNESS-ERROR; else verdict=missed; fi
    echo "$d  check=$c  $verdict  :: $(echo "$out" | grep -a 'quick seed' | sed 's/.*cases=/cases=/')"
    echo "$out" | grep -a VIOLATION | head -2 | sed 's/^/      /'
  done
  git -C /repo checkout -- .
  rm -f replays/C*-*.json
}
if [ "$1" == "--all" ]; then
  for d in seeded/*/; do [ -f "$d/meta.json" ] && run_one "${d%/}"; done
else
  run_one "$@"
fi
