#!/bin/bash
# Offline setup: make sure Hypothesis is importable by /venv; put atheris beside it (optional).
set -u
cd "$(dirname "$0")"
if ! /venv/bin/python -c 'import hypothesis' 2>/dev/null; then
  /venv/bin/pip install --no-index --find-links /opt/veriftools/wheels hypothesis || exit 1
fi
mkdir -p .deps evidence replays
if ! PYTHONPATH=.deps /venv/bin/python -c 'import atheris' 2>/dev/null; then
  /venv/bin/pip install --no-index --find-links /opt/veriftools/wheels --target .deps atheris >/dev/null 2>&1 \
    || echo "note: atheris not installable here; C11 falls back to Hypothesis + systematic engines"
fi
/venv/bin/python -c 'import hypothesis; print("hypothesis", hypothesis.__version__)'
exit 0
